"""C07 - no undefined behaviour, nothing handed back refers to released storage.

General memory safety over all inputs is NOT claimed (indices, heap positions and integer ranges of the
Dijkstra/heap/BFS loops are beyond a sound static argument here).  Decided shapes, each a genuine source of UB:
R07a (=R05a) descriptors of the internal spanner never reach the caller (use-after-free through a returned descriptor)
R07b  a reference member is never bound to a temporary of non-empty class type that dies before the object
R07c (=R10a, R10s) the DIMACS reader never writes buffer[-1] / never overflows a %s destination
R07d  no dereference of a past-the-end iterator reachable from an entry point
R07e  an unchecked v[i] inside a blocked_range(0, N) task body has N = v.size(), or v is filled by an unconditional
      full-range loop over the same range N counts
"""
import os

from lib import env, ex
from . import common
from . import approx, c05, c10

TITLE = 'C07: four named UB shapes decided on the resolved AST (escape, dangling reference members, reader buffer writes, past-the-end dereference).'


def ref_field_bindings(prog):
    """ctor fref id -> list of (param index, field var) for reference/pointer fields initialised from a reference param"""
    res = {}
    for f in prog.functions:
        fr = f.fref
        if not fr.get('ctor') or f.implicit:
            continue
        if not (f.file.startswith(env.REPO) or f.file.startswith(env.WITNESS)):
            continue
        pids = f.param_ids
        lst = []
        for ci in f.ctor_inits:
            if 'field' not in ci or 'node' not in ci:
                continue
            fd = prog.vars[ci['field']]
            ft = prog.type(fd['ty']) or {}
            if not ft.get('ref'):
                continue
            v = ex.var_of(ci['node'])
            if v in pids:
                pt = prog.type(prog.vars[v]['ty']) or {}
                if pt.get('ref'):
                    lst.append((pids.index(v), fd))
        if lst:
            res[f.fref_id] = (f, lst)
    return res


def r07b_params(rep, prog):
    """a reference member initialised from a *by-value* constructor parameter refers to storage that is released when
    the constructor returns (violation unless the referenced type is an empty class: nothing is read through it)"""
    n = 0
    for f in prog.functions:
        fr = f.fref
        if not fr.get('ctor') or f.implicit:
            continue
        if not (f.file.startswith(env.REPO + '/include') or f.file.startswith(env.WITNESS)):
            continue
        pids = f.param_ids
        for ci in f.ctor_inits:
            if 'field' not in ci or 'node' not in ci:
                continue
            fd = prog.vars[ci['field']]
            ft = prog.type(fd['ty']) or {}
            if not ft.get('ref'):
                continue
            v = ex.var_of(ci['node'])
            if v not in pids:
                continue
            n += 1
            pt = prog.type(prog.vars[v]['ty']) or {}
            what = 'reference member %s::%s is bound to storage that outlives the constructor' % (
                (fr.get('rec') or '?').split('::')[-1], fd['name'])
            if pt.get('ref'):
                rep.ok('R07b', ci['node'], f, what, 'initialised from the reference parameter %s' % prog.vars[v]['name'])
                continue
            bt = prog.base_type(prog.vars[v]['ty']) or {}
            if bt.get('empty'):
                rep.info('R07b', ci['node'], f, what, 'by-value parameter of the EMPTY class %s: nothing is ever read through the reference' % (bt.get('rec') or bt.get('s')))
                continue
            rep.violation('R07b', ci['node'], f, what,
                          'the member is initialised from the by-value parameter %s (type %s), which is destroyed when the constructor '
                          'returns: every later read through the member uses released storage' % (prog.vars[v]['name'], bt.get('s') or bt.get('rec')),
                          key='R07b|%s|%s::%s|byvalue' % (f.g, fr.get('rec'), fd['name']))
    return n


def r07f(rep, prog):
    """distances that may hold the infinity marker (numeric_limits::max) are only added through closed_plus, or under a has_finite_dist guard:
    a raw `+` overflows for signed integral weight types (undefined behaviour; the library is instantiated with int in its own tests)"""
    n = 0
    for fn in prog.fns('parmcb::bidirectional_signed_dijkstra'):
        cfg = fn.cfg
        for d in fn.walk():
            if not (d.k in ('BinaryOperator', 'CompoundAssignOperator') and d.op in ('+', '+=')):
                continue
            t = prog.base_type(d.j.get('t')) or {}
            if not t.get('arith'):
                continue
            maybe_inf = [x for o in d.c for x in [o.strip_all()] + list(o.walk())
                         if x.k == 'CXXMemberCallExpr' and x.callee and x.callee['name'] in ('get_dist', 'find_min')]
            # locals holding such a value
            for o in d.c:
                v = ex.var_of(o)
                if v is not None:
                    df = ex.unique_def(fn, v)
                    if df is not None:
                        maybe_inf += [x for x in [df.strip_all()] + list(df.walk()) if x.k == 'CXXMemberCallExpr' and x.callee and x.callee['name'] in ('get_dist',)]
            if not maybe_inf:
                continue
            n += 1
            what = 'a distance that may be the infinity marker is added with closed_plus or under a has_finite_dist guard'
            call = maybe_inf[0]
            key = (ex.key(call.object_arg()) if call.object_arg() is not None else None, ex.key(call.args()[0]) if call.args() else None)

            def atomize(leaf):
                s_ = leaf.strip_all()
                if s_.k == 'CXXMemberCallExpr' and s_.callee and s_.callee['name'] == 'has_finite_dist' and s_.object_arg() is not None and s_.args():
                    if (ex.key(s_.object_arg()), ex.key(s_.args()[0])) == key:
                        return ex.f_atom('finite')
                return None
            from .c10 import guards_formula, implies
            g = guards_formula(cfg, d, atomize)
            if 'finite' in ex.f_atoms(g) and implies(g, ex.f_atom('finite')):
                rep.ok('R07f', d, fn, what, 'guarded by has_finite_dist for the same vertex')
            elif t.get('float') and not t.get('int'):
                rep.ok('R07f', d, fn, what, 'floating-point instantiation: max + x does not overflow')
            else:
                rep.violation('R07f', d, fn, what,
                              '`%s` adds %s of a vertex the other frontier may not have reached (its label is numeric_limits::max()) with a plain +: '
                              'signed integer overflow for integral weight types' % (d.text(60), call.callee['name']), key='R07f|%s|raw-plus' % fn.g)
    return n


def r07g(rep, prog, only_files=None):
    """no mutable function-local static in a library function (other than the owner of the TBB control object, whose purpose is to outlive the
    call): such a variable is shared by every call of that instantiation, so two independent calls running in different threads race on it and
    state leaks from one call into the next"""
    n = 0
    seen = set()
    for fn in prog.functions:
        if fn.implicit or not (fn.file.startswith(env.REPO + '/include') or fn.file.startswith(env.WITNESS + '/positive')):
            continue
        if only_files and not any(x in fn.file for x in only_files):
            continue
        for d in fn.walk():
            if d.k != 'VarDecl' or d.decl is None or d.decl.get('kind') != 'static_local':
                continue
            t = prog.type(d.j.get('t')) or {}
            bt = prog.base_type(d.j.get('t')) or {}
            if t.get('const') or bt.get('const'):
                continue
            key = (fn.g, d.decl.get('name'))
            if key in seen:
                continue
            seen.add(key)
            n += 1
            what = 'library functions keep no mutable function-local static state'
            if fn.g == common.KNOB or any(x in (bt.get('canon') or '') for x in ('global_control', 'task_scheduler_init', 'task_arena')):
                rep.ok('R07g', d, fn, what, 'owner of the TBB control object: meant to outlive the call (C20)')
                continue
            rep.violation('R07g', d, fn, what,
                          '`static %s` in %s is shared by all calls: concurrent calls on different graphs race on it (heap corruption / wrong results), and a call '
                          'that leaves it non-empty poisons the next one' % (d.decl.get('name'), fn.g), key='R07g|%s|%s' % (fn.g, d.decl.get('name')))
    return n


def r07k(rep, prog, only_files=None):
    """std::numeric_limits<T>::infinity() (quiet_NaN, ...) is only meaningful for floating-point T: for an integral T it is T() == 0.  The library's
    templates are instantiated with integral weight types (the witness TU does it with int), so a sentinel / absorbing element / reduction
    identity written as infinity() silently becomes 0 there: every saturating sum collapses to 0, every minimum is won by the identity."""
    n = 0
    for fn in prog.functions:
        if fn.implicit or not (fn.file.startswith(env.REPO + '/include') or fn.file.startswith(env.WITNESS + '/positive')):
            continue
        if only_files and not any(x in fn.file for x in only_files):
            continue
        nodes = list(fn.walk())
        for ci in fn.ctor_inits:
            if 'node' in ci:
                nodes += list(ci['node'].walk())
        for d in nodes:
            if d.k == 'CallExpr' and d.callee and d.callee['g'] in ('std::numeric_limits::infinity', 'std::numeric_limits::quiet_NaN', 'std::numeric_limits::signaling_NaN'):
                rt = prog.base_type(d.callee.get('ret')) or {}
                n += 1
                what = 'numeric_limits<T>::%s() is used with a floating-point T only' % d.callee['name']
                if rt.get('int') and not rt.get('float'):
                    rep.violation('R07k', d, fn, what,
                                  '`%s` is instantiated with the integral type %s, for which it is 0: used as "infinity" (unreached distance, absorbing element of '
                                  'the saturating sum, identity of a minimum) it makes every sum / minimum collapse to 0 for integral weight types' % (d.text(50), rt.get('s')),
                                  key='R07k|%s|integral-infinity' % fn.g)
                else:
                    rep.ok('R07k', d, fn, what, rt.get('s') or '')
    return n


ORDER_ALGOS = ('std::sort', 'std::stable_sort', 'std::partial_sort', 'std::nth_element', 'std::make_heap', 'std::push_heap', 'std::pop_heap',
               'std::sort_heap', 'std::lower_bound', 'std::upper_bound', 'std::binary_search', 'std::equal_range', 'std::merge', 'std::inplace_merge',
               'std::min_element', 'std::max_element', 'std::is_sorted', 'std::set_union', 'std::set_difference', 'std::set_intersection',
               'std::set_symmetric_difference', 'std::includes')


def _subst_key(k, m):
    if isinstance(k, tuple):
        if len(k) == 2 and k[0] == 'v' and k[1] in m:
            return ('v', m[k[1]])
        return tuple(_subst_key(x, m) for x in k)
    return k


def comparator_reflexive(prog, lf):
    """value of comp(x, x) for a two-parameter comparator: True / False / None (not evaluable).  Comparisons whose two sides are the
    same expression over the two parameters (a.w < b.w, get<1>(a) <= get<1>(b), w[a] > w[b]) are evaluated at equality."""
    if lf is None or lf.body is None or len(lf.param_ids) != 2 or lf.cfg is None:
        return None
    a, b = lf.param_ids
    m = {a: 'X', b: 'X'}
    EQ = {'<': ex.FALSE, '>': ex.FALSE, '<=': ex.TRUE, '>=': ex.TRUE, '==': ex.TRUE, '!=': ex.FALSE}

    def atomize(leaf):
        s_ = leaf.strip_all()
        ops = None
        if s_.k == 'BinaryOperator' and s_.op in EQ:
            ops = s_.c
        elif s_.k == 'CXXOperatorCallExpr' and s_.op in EQ and len(s_.c) == 3:
            ops = s_.c[1:]
        if ops is not None:
            k0, k1 = _subst_key(ex.key(ops[0]), m), _subst_key(ex.key(ops[1]), m)
            if k0 == k1 and (ex.refs_var(ops[0], a) or ex.refs_var(ops[0], b)):
                return EQ[s_.op]
        if s_.k in ex.CALL_KINDS and s_.callee and s_.callee.get('in_repo') and s_.callee_id is not None and s_.k != 'CXXOperatorCallExpr':
            # a nested comparator called with the two parameters: comp2(a, b) at a == b
            args = s_.args()
            if len(args) == 2 and {ex.var_of(args[0]), ex.var_of(args[1])} == {a, b}:
                v = comparator_reflexive(prog, prog.fn_of_fref(s_.callee_id))
                if v is not None:
                    return ex.TRUE if v else ex.FALSE
        return None
    total = ex.FALSE
    for r in ex.returns_of(lf):
        if not r.c:
            return None
        v = ex.formula(r.c[0], atomize)
        if v is None:
            return None
        pc = ex.path_condition(lf.cfg, r, atomize)
        total = ex.f_or(total, ex.f_and(pc, v))
    if ex.f_atoms(total):
        return None
    return bool(ex.f_eval(total, {}))


def r07o(rep, prog, only_files=None):
    """comparators handed to the ordering algorithms of the standard library are irreflexive (comp(x, x) == false): std::sort with a
    comparator that answers true for equal elements (`<=` in the last rung of a tie-break chain) runs its unguarded partition loops
    off the range - a heap over-read / segfault on inputs with enough equal keys, silent on the small test graphs"""
    n = 0
    what = 'the comparator is a strict ordering: comp(x, x) is false'
    for fn in prog.functions:
        if fn.implicit or not (fn.file.startswith(env.REPO + '/include') or fn.file.startswith(env.REPO + '/src') or fn.file.startswith(env.WITNESS + '/positive')):
            continue
        if only_files and not any(x in fn.file for x in only_files):
            continue
        for c in fn.walk():
            if c.k != 'CallExpr' or not c.callee or c.callee['g'] not in ORDER_ALGOS or not c.args():
                continue
            comp = c.args()[-1].strip_all()
            lfs = []
            if comp.k == 'LambdaExpr':
                lfs = [prog.fn_of_fref(op) for op in comp.j.get('lambda_ops', ())]
            else:
                v = ex.var_of(comp)
                ty = prog.base_type(comp.j.get('t')) or {}
                rec = ty.get('rec') or ''
                if rec.startswith('parmcb::') or (ty.get('canon') or '').startswith('parmcb::'):
                    lfs = [f for f in prog.functions if f.fref['name'] == 'operator()' and f.g.startswith(rec + '::') and len(f.param_ids) == 2]
                elif v is not None:
                    d = ex.unique_def(fn, v)
                    if d is not None and d.strip_all().k == 'LambdaExpr':
                        lfs = [prog.fn_of_fref(op) for op in d.strip_all().j.get('lambda_ops', ())]
            lfs = [f for f in lfs if f is not None and f.body is not None and len(f.param_ids) == 2]
            for lf in lfs[:1]:
                n += 1
                v = comparator_reflexive(prog, lf)
                if v is True:
                    rep.violation('R07o', c, fn, what, 'the comparator of `%s` answers true for two equal elements (a `<=` / `>=` / `==` rung decides the tie): not a strict '
                                  'weak ordering - undefined behaviour in %s (reads and swaps outside the range once enough keys tie)' % (
                                      c.text(40), c.callee['g']), key='R07o|%s|%d' % (fn.g, c.line))
                elif v is False:
                    rep.ok('R07o', c, fn, what, 'comp(x, x) evaluates to false')
                else:
                    rep.info('R07o', c, fn, what, 'comp(x, x) not evaluable from the comparator text')
    return n


def _scalar_kind(prog, t):
    ty = prog.base_type(t) if t is not None else None
    c = ((ty or {}).get('canon') or (ty or {}).get('s') or '').replace('const ', '').strip()
    if c in ('double', 'float', 'long double'):
        return ('float', {'float': 32, 'double': 64, 'long double': 80}[c])
    table = {'unsigned char': 8, 'signed char': 8, 'char': 8, 'unsigned short': 16, 'short': 16, 'unsigned int': 32, 'int': 32,
             'unsigned long': 64, 'long': 64, 'unsigned long long': 64, 'long long': 64, 'bool': 1}
    if c in table:
        return ('int', table[c])
    return None


def r07p(rep, prog, only_files=None):
    """std::accumulate / std::reduce / std::inner_product sum in the type of their *initial value*: `accumulate(w.begin(), w.end(), 0)` over
    double weights adds every partial sum back into an int (fractions are dropped, a sum of 2^31 or more is an out-of-range
    floating -> integral conversion: undefined behaviour)"""
    n = 0
    what = 'a fold over the weights accumulates in a type at least as wide as the elements'
    for fn in prog.functions:
        if fn.implicit or not (fn.file.startswith(env.REPO + '/include') or fn.file.startswith(env.REPO + '/src') or fn.file.startswith(env.WITNESS + '/positive')):
            continue
        if only_files and not any(x in fn.file for x in only_files):
            continue
        for c in fn.walk():
            if c.k != 'CallExpr' or not c.callee or c.callee['g'] not in ('std::accumulate', 'std::reduce', 'std::inner_product') or len(c.args()) < 3:
                continue
            ix = 3 if c.callee['g'] == 'std::inner_product' else 2
            if len(c.args()) <= ix:
                continue
            acc = _scalar_kind(prog, c.j.get('t'))
            a0 = c.args()[0].strip_all()
            elem = None
            if a0.k == 'CXXMemberCallExpr' and a0.callee and a0.callee['name'] in ('begin', 'cbegin') and a0.object_arg() is not None:
                ct = prog.base_type(a0.object_arg().strip_all().j.get('t')) or {}
                ta = ct.get('targs') or []
                if ta and isinstance(ta[0], int):
                    elem = _scalar_kind(prog, ta[0])
            n += 1
            if acc is None or elem is None:
                rep.info('R07p', c, fn, what, 'accumulator / element type not scalar')
                continue
            if (acc[0] == 'int' and elem[0] == 'float') or (acc[0] == elem[0] and acc[1] < elem[1]):
                rep.violation('R07p', c, fn, what, '`%s` folds %s elements into an accumulator of type `%s` (the type of the initial value `%s`): every partial sum is '
                              'truncated, and a sum outside its range is undefined behaviour' % (
                                  c.text(50), 'floating-point' if elem[0] == 'float' else '%d-bit' % elem[1],
                                  (prog.base_type(c.j.get('t')) or {}).get('s', '?'), c.args()[ix].text(12)), key='R07p|%s|%d' % (fn.g, c.line))
            else:
                rep.ok('R07p', c, fn, what, 'accumulator %s%d, elements %s%d' % (acc + elem))
    return n


REINIT_METHODS = ('clear', 'assign', 'swap', 'reset', 'operator=')


def _use_kind(n):
    """how the DeclRefExpr n is used: 'reinit' (x.clear(), x = .., x.assign(..), swap), 'move' (argument of std::move / std::forward),
    'decl-free' uses that do not read the value (sizeof, address taken for a reinit helper are not modelled) or 'use'"""
    p = n.parent
    while p is not None and p.k in ('ImplicitCastExpr', 'ParenExpr', 'MaterializeTemporaryExpr', 'CXXBindTemporaryExpr'):
        p = p.parent
    if p is None:
        return 'use'
    if p.k == 'MemberExpr':
        q = p.parent
        if q is not None and q.k == 'CXXMemberCallExpr' and q.callee and q.callee['name'] in REINIT_METHODS:
            return 'reinit'
        return 'use'
    if p.k == 'CXXOperatorCallExpr' and p.op == '=' and len(p.c) >= 2 and p.c[1].strip_all() is n:
        return 'reinit'
    if p.k == 'BinaryOperator' and p.op == '=' and p.c[0].strip_all() is n:
        return 'reinit'
    if p.k == 'CallExpr' and p.callee and p.callee['g'] in ('std::move', 'std::forward'):
        return 'move'
    if p.k == 'CallExpr' and p.callee and p.callee['g'] in ('std::swap',):
        return 'reinit'
    return 'use'


def r07q(rep, prog, only_files=None):
    """no use of a moved-from local: after `std::move(x)` has been handed to a sink, the next thing that happens to x on every path is a
    re-initialisation (x.clear(), assignment, a fresh declaration in the next loop iteration).  A list that is emitted with
    `*out++ = std::move(cycle)` and appended to again in the next iteration relies on the consumer having emptied it - an output iterator
    that only observes its argument leaves it full, and every later cycle then carries the edges of the earlier ones."""
    n = 0
    what = 'a moved-from local is re-initialised before it is used again'
    for fn in prog.functions:
        if fn.implicit or fn.body is None or fn.cfg is None:
            continue
        if not (fn.file.startswith(env.REPO + '/include') or fn.file.startswith(env.WITNESS + '/positive')):
            continue
        if only_files and not any(x in fn.file for x in only_files):
            continue
        for mv in fn.walk():
            if not (mv.k == 'CallExpr' and mv.callee and mv.callee['g'] == 'std::move' and len(mv.args()) == 1):
                continue
            a = mv.args()[0].strip_all()
            if a.k != 'DeclRefExpr' or a.decl_id is None:
                continue
            v = a.decl_id
            vd = prog.vars[v] if v < len(prog.vars) else None
            if not vd or vd.get('kind') not in ('local', 'param') or vd.get('fn') != fn.fref_id:
                continue
            ty = prog.type(vd.get('ty')) or {}
            if 'base' in ty and ty.get('s', '').rstrip().endswith('&') and not ty.get('s', '').rstrip().endswith('&&'):
                continue        # an lvalue reference: the object belongs to someone else (not decided here)
            bt = prog.base_type(vd.get('ty')) or {}
            if not (bt.get('rec') or '').startswith('std::'):
                continue        # only standard containers / strings: their moved-from state is "valid but unspecified"
            # the move only matters if its result initialises / is assigned to something (a cast alone moves nothing)
            n += 1

            def stop(x, v=v):
                if x.k == 'VarDecl' and x.decl_id == v:
                    return True
                if x.k == 'DeclStmt' and any(c_.k == 'VarDecl' and c_.decl_id == v for c_ in x.c):
                    return True
                return x.k == 'DeclRefExpr' and x.decl_id == v and _use_kind(x) == 'reinit'
            later = [x for x in ex.flow_after(fn.cfg, mv, stop) if x.k == 'DeclRefExpr' and x.decl_id == v and _use_kind(x) == 'use']
            if later:
                u = min(later, key=lambda x: (x.line, x.i))
                rep.violation('R07q', mv, fn, what, '`%s` is moved from at line %d and used again at line %d (`%s`) without being cleared or re-assigned in between: '
                              'its contents are whatever the consumer left behind' % (vd['name'], mv.line, u.line, (u.parent.parent or u.parent).text(40) if u.parent is not None else u.text(20)),
                              key='R07q|%s|%s' % (fn.g, vd['name']))
            else:
                rep.ok('R07q', mv, fn, what, '`%s`: no use after the move without re-initialisation' % vd['name'])
    return n


INVALIDATING = ('push_back', 'emplace_back', 'insert', 'emplace', 'resize', 'reserve', 'assign', 'clear', 'erase', 'shrink_to_fit', 'swap', 'operator=')


def r07r(rep, prog, only_files=None):
    """no reference into a std::vector outlives a call that may reallocate it: `const auto &u = order[head++];` followed by
    `order.push_back(w)` and another read of `u` reads freed storage as soon as the push reallocates (silent for small inputs, where the
    freed block still holds the old value; a crash once the block is large enough to be unmapped)"""
    n = 0
    what = 'a reference to a vector element is not used after the vector may have been reallocated'
    for fn in prog.functions:
        if fn.implicit or fn.body is None or fn.cfg is None:
            continue
        if not (fn.file.startswith(env.REPO + '/include') or fn.file.startswith(env.WITNESS + '/positive')):
            continue
        if only_files and not any(x in fn.file for x in only_files):
            continue
        for d in fn.walk():
            if d.k != 'VarDecl' or not d.c or d.decl_id is None:
                continue
            ty = prog.type(prog.vars[d.decl_id].get('ty')) or {}
            ts = (ty.get('s') or '').rstrip()
            if not ('base' in ty and ts.endswith('&') and not ts.endswith('&&')):
                continue
            ini = d.c[0].strip_all()
            cont = None
            if ini.k == 'CXXOperatorCallExpr' and ini.op == '[]' and len(ini.c) == 3:
                cont = ini.c[1]
            elif ini.k == 'CXXMemberCallExpr' and ini.callee and ini.callee['name'] in ('front', 'back', 'at') and ini.object_arg() is not None:
                cont = ini.object_arg()
            if cont is None:
                continue
            cv = ex.var_of(cont)
            ct = prog.base_type(cont.strip_all().j.get('t')) or {}
            if cv is None or (ct.get('rec') or '') not in ('std::vector', 'std::basic_string'):
                continue
            if 'vector<bool' in (ct.get('canon') or ''):
                continue
            n += 1
            rv = d.decl_id

            def is_decl(x, rv=rv):
                return (x.k == 'VarDecl' and x.decl_id == rv) or (x.k == 'DeclStmt' and any(c_.k == 'VarDecl' and c_.decl_id == rv for c_ in x.c))
            start = d.parent if d.parent is not None and d.parent.k == 'DeclStmt' and d.parent.i in fn.cfg.positions() else d
            after_d = ex.flow_after(fn.cfg, start, is_decl)
            grows = [x for x in after_d if x.k == 'CXXMemberCallExpr' and x.callee and x.callee['name'] in INVALIDATING and
                     x.object_arg() is not None and ex.var_of(x.object_arg()) == cv]
            hit = None
            for g in grows:
                uses = [x for x in ex.flow_after(fn.cfg, g, is_decl) if x.k == 'DeclRefExpr' and x.decl_id == rv]
                if uses:
                    hit = (g, min(uses, key=lambda x: (x.line, x.i)))
                    break
            if hit:
                rep.violation('R07r', d, fn, what, '`%s` refers to an element of `%s` (line %d); `%s` (line %d) may reallocate the vector, and `%s` is read again at line %d' % (
                    prog.vars[rv]['name'], prog.vars[cv]['name'], d.line, hit[0].text(30), hit[0].line, prog.vars[rv]['name'], hit[1].line),
                    key='R07r|%s|%s' % (fn.g, prog.vars[rv]['name']))
            else:
                rep.ok('R07r', d, fn, what, '`%s`: no use after a growth of `%s`' % (prog.vars[rv]['name'], prog.vars[cv]['name']))
    return n


def r07s(rep, prog):
    """the (tree, edge) -> node table of the isometric-circuit builder is read for circuits that may not be in it (two shortest-path trees
    that break a floating-point tie differently do not produce the partner circuit): a lookup must tolerate the missing key.  `find(k)->second`
    / `*find(k)` dereferences end() in that case (operator[] inserts a default node, at() throws - both defined)."""
    what = 'lookups in the circuit table of ISOCyclesBuilder tolerate a missing partner circuit'
    n = 0
    for fn in prog.functions:
        if fn.implicit or fn.body is None or 'ISOCyclesBuilder::operator()' not in fn.g:
            continue
        if fn.g.endswith('ISOCyclesBuilder::operator()') is False and '(lambda)' not in fn.g:
            continue
        for d in fn.walk():
            if d.k == 'CXXMemberCallExpr' and d.callee and d.callee['name'] == 'find' and d.object_arg() is not None and \
                    ((prog.base_type(d.object_arg().strip_all().j.get('t')) or {}).get('rec') or '') in ('std::map', 'std::unordered_map'):
                n += 1
                up = d.top_transparent().parent if hasattr(d, 'top_transparent') else d.parent
                deref = up is not None and ((up.k == 'CXXOperatorCallExpr' and up.op in ('->', '*')) or (up.k == 'MemberExpr') or (up.k == 'UnaryOperator' and up.op == '*'))
                if deref:
                    rep.violation('R07s', d, fn, what, '`%s` is dereferenced without a comparison with end(): when the partner circuit is missing this reads the map header '
                                  'and uses the garbage as a vertex of the auxiliary graph' % d.text(50), key='R07s|%s|%d' % (fn.g, d.line))
                else:
                    rep.ok('R07s', d, fn, what, 'result kept for a test against end()')
    return n


SORTED_RANGE_ALGOS = ('std::set_difference', 'std::set_union', 'std::set_intersection', 'std::set_symmetric_difference', 'std::includes',
                      'std::merge', 'std::binary_search', 'std::lower_bound', 'std::upper_bound', 'std::equal_range')


def r07t(rep, prog, only_files=None):
    """the sorted-range algorithms of <algorithm> are only applied to sorted ranges: std::set_difference & co. over a std::vector member that is
    filled with push_back in path order (and never sorted anywhere in the program) compare the two paths in an order that depends on the direction
    in which each was built - the lexicographic tie-break of the shortest-path trees then differs from root to root."""
    n = 0
    what = 'ranges handed to std::set_difference / includes / binary_search ... are sorted'
    sorted_fields = set()
    appended_fields = set()
    for f in prog.functions:
        if f.body is None:
            continue
        for x in f.walk():
            if x.k == 'CallExpr' and x.callee and x.callee['g'] in ('std::sort', 'std::stable_sort') and x.args():
                a0 = x.args()[0].strip_all()
                if a0.k == 'CXXMemberCallExpr' and a0.object_arg() is not None:
                    for y in [a0.object_arg().strip_all()] + list(a0.object_arg().walk()):
                        if y.k == 'MemberExpr' and y.decl_id is not None:
                            sorted_fields.add(y.decl_id)
            if x.k == 'CXXMemberCallExpr' and x.callee and x.callee['name'] in ('push_back', 'emplace_back') and x.object_arg() is not None and x.args():
                o = x.object_arg().strip_all()
                if o.k == 'MemberExpr' and o.decl_id is not None and any(
                        y.k == 'CallExpr' and y.callee and y.callee['g'] in ('boost::target', 'boost::source', 'boost::opposite') for y in [x.args()[0].strip_all()] + list(x.args()[0].walk())):
                    appended_fields.add(o.decl_id)
    # a local vector that is appended to and then handed to a constructor of a record: the vector members of that record hold it
    for f in prog.functions:
        if f.body is None:
            continue
        def vertex_index_value(e_, depth=0):
            # the appended value is the index of a graph vertex (index_map[target(e, g)], get(index_map, v), a local defined so): along a path such
            # indices come in no particular order - this is what makes the sequence provably unsorted
            s_ = e_.strip_all()
            for y in [s_] + list(s_.walk()):
                if y.k == 'CallExpr' and y.callee and y.callee['g'] in ('boost::target', 'boost::source', 'boost::opposite'):
                    return True
            v_ = ex.var_of(s_)
            if v_ is not None and depth < 3:
                d_ = ex.unique_def(f, v_)
                if d_ is not None:
                    return vertex_index_value(d_, depth + 1)
            return False
        appended_locals = {ex.var_of(x.object_arg()) for x in f.walk() if x.k == 'CXXMemberCallExpr' and x.callee and x.callee['name'] in ('push_back', 'emplace_back')
                           and x.object_arg() is not None and ex.var_of(x.object_arg()) is not None and x.args() and vertex_index_value(x.args()[0]) and
                           ((prog.base_type(x.object_arg().strip_all().j.get('t')) or {}).get('rec') or '') == 'std::vector'}
        appended_locals.discard(None)
        if not appended_locals:
            continue
        for x in f.walk():
            if x.k in ex.CTOR_KINDS and x.callee and x.callee.get('ctor') and (x.callee.get('rec') or '').startswith('parmcb::') and \
                    any(ex.var_of(a_) in appended_locals for a_ in x.c):
                for rec in prog.records:
                    if isinstance(rec, dict) and rec.get('g') == x.callee.get('rec') and rec.get('fields'):
                        for fid in rec['fields']:
                            if ((prog.base_type(prog.vars[fid].get('ty')) or {}).get('rec') or '') == 'std::vector':
                                appended_fields.add(fid)
    for fn in prog.functions:
        if fn.implicit or fn.body is None or not (fn.file.startswith(env.REPO + '/include') or fn.file.startswith(env.WITNESS + '/positive')):
            continue
        if only_files and not any(x in fn.file for x in only_files):
            continue
        for c in fn.walk():
            if c.k != 'CallExpr' or not c.callee or c.callee['g'] not in SORTED_RANGE_ALGOS or len(c.args()) < 2:
                continue
            starts = [0, 2] if c.callee['g'] in ('std::set_difference', 'std::set_union', 'std::set_intersection', 'std::set_symmetric_difference', 'std::includes', 'std::merge') else [0]
            for ix in starts:
                if ix >= len(c.args()):
                    continue
                a0 = c.args()[ix].strip_all()
                if not (a0.k == 'CXXMemberCallExpr' and a0.callee and a0.callee['name'] in ('begin', 'cbegin') and a0.object_arg() is not None):
                    continue
                o = a0.object_arg().strip_all()
                rec = (prog.base_type(o.j.get('t')) or {}).get('rec') or ''
                n += 1
                if rec in ('std::set', 'std::multiset', 'std::map', 'std::multimap'):
                    rep.ok('R07t', c, fn, what, '%s over a %s' % (c.callee['name'], rec))
                    continue
                if rec not in ('std::vector', 'std::deque', 'std::list', 'std::array'):
                    rep.info('R07t', c, fn, what, 'range of a %s' % (rec or 'non-container'))
                    continue
                v = ex.var_of(o)
                if o.k == 'MemberExpr' and o.decl_id is not None and prog.vars[o.decl_id].get('kind') == 'field':
                    fid = o.decl_id
                    if fid in sorted_fields:
                        rep.info('R07t', c, fn, what, 'the member `%s` is sorted somewhere in the program' % prog.vars[fid]['name'])
                    elif fid in appended_fields:
                        rep.violation('R07t', c, fn, what, '`%s` runs over the std::vector member `%s`, which is filled with push_back of vertex indices in path order and never sorted anywhere: the algorithm '
                                      'requires sorted ranges, its result depends on the order in which the elements were appended' % (
                                          c.text(50), prog.vars[fid]['name']), key='R07t|%s|%s' % (fn.g, prog.vars[fid]['name']))
                    else:
                        rep.info('R07t', c, fn, what, 'member `%s`: writers not recognised' % prog.vars[fid]['name'])
                elif v is not None and ex.sorted_before(fn, v, c):
                    rep.ok('R07t', c, fn, what, 'sorted before the call')
                else:
                    rep.info('R07t', c, fn, what, 'local range, sortedness not traced')
    return n


def _nonempty_atomizer(prog, key_of):
    """atoms 'ne' (container with key key_of is non-empty) from !X.empty(), X.size() > 0 / != 0 / >= 1, X.begin() != X.end()"""
    def atomize(leaf):
        s_ = leaf.strip_all()
        if s_.k == 'CXXMemberCallExpr' and s_.callee and s_.callee['name'] == 'empty' and s_.object_arg() is not None and ex.key(s_.object_arg()) == key_of:
            return ex.f_not(ex.f_atom('ne'))
        if s_.k == 'BinaryOperator' and s_.op in ('>', '!=', '>=', '==', '<', '<=') and len(s_.c) == 2:
            l_, r_, op = s_.c[0].strip_all(), s_.c[1].strip_all(), s_.op
            if r_.k == 'CXXMemberCallExpr' and l_.cv is not None:
                l_, r_ = r_, l_
                op = {'>': '<', '<': '>', '>=': '<=', '<=': '>=', '==': '==', '!=': '!='}[op]
            if l_.k == 'CXXMemberCallExpr' and l_.callee and l_.callee['name'] == 'size' and l_.object_arg() is not None and ex.key(l_.object_arg()) == key_of and r_.cv is not None:
                ne = ex.f_atom('ne')
                if (op, r_.cv) in (('>', 0), ('!=', 0), ('>=', 1)):
                    return ne
                if (op, r_.cv) in (('==', 0), ('<', 1), ('<=', 0)):
                    return ex.f_not(ne)
        if s_.k == 'CXXOperatorCallExpr' and s_.op in ('==', '!=') and len(s_.c) == 3:
            a_, b_ = s_.c[1].strip_all(), s_.c[2].strip_all()
            names = {x.callee['name'] for x in (a_, b_) if x.k == 'CXXMemberCallExpr' and x.callee and x.object_arg() is not None and ex.key(x.object_arg()) == key_of}
            if names in ({'begin', 'end'}, {'cbegin', 'cend'}):
                return ex.f_atom('ne') if s_.op == '!=' else ex.f_not(ex.f_atom('ne'))
        return None
    return atomize


def r07v(rep, prog):
    """R07v: the address of a local declared inside a loop body / inner block is stored in a pointer declared outside that block, and the pointer
    is dereferenced after the block has ended: the pointee's lifetime ended with its block (every iteration destroys it), so the dereference reads
    a destroyed object (for a tuple holding a std::set: freed tree nodes)."""
    n = 0
    for fn in prog.functions:
        if fn.implicit or fn.body is None or not (fn.file.startswith(env.REPO + '/include') or fn.file.startswith(env.WITNESS + '/positive')):
            continue
        decls = {d.decl_id: d for d in fn.walk() if d.k == 'VarDecl'}
        for a in fn.walk():
            if a.k != 'BinaryOperator' or a.op != '=' or len(a.c) != 2:
                continue
            ptr = ex.var_of(a.c[0])
            rhs = a.c[1].strip_all()
            if ptr is None or ptr not in decls or rhs.k != 'UnaryOperator' or rhs.op != '&':
                continue
            loc = ex.var_of(rhs.c[0])
            if loc is None or loc not in decls or rhs.c[0].strip_all().k != 'DeclRefExpr':
                continue
            lt = prog.type(prog.vars[loc].get('ty')) or {}
            if lt.get('ref') or 'static' in (decls[loc].j.get('storage') or ''):
                continue
            inner = decls[loc].enclosing('CompoundStmt')
            outer = decls[ptr].enclosing('CompoundStmt')
            if inner is None or outer is None or inner is outer or not outer.is_ancestor_of(inner):
                continue
            n += 1
            what = 'a pointer to the block-local `%s` is not dereferenced after the block ended' % prog.vars[loc]['name']
            late = [d for d in fn.walk() if not inner.is_ancestor_of(d) and fn.cfg is not None and fn.cfg.reaches(a, d) and
                    ((d.k == 'UnaryOperator' and d.op == '*' and ex.var_of(d.c[0]) == ptr) or
                     (d.k == 'MemberExpr' and d.j.get('arrow') and d.c and ex.var_of(d.c[0]) == ptr))]
            if late:
                rep.violation('R07v', late[0], fn, what, '`%s` (line %d) stores the address of `%s`, which lives only until the end of the block at line %d; `%s` at line %d reads it '
                              'after that block has ended: the object (and what it owns) is already destroyed' % (
                                  a.text(30), a.line, prog.vars[loc]['name'], inner.line, late[0].text(30), late[0].line), key='R07v|%s|%s' % (fn.g, prog.vars[ptr]['name']))
            else:
                rep.ok('R07v', a, fn, what, 'pointer only used inside the block')
    return n


def r07u(rep, prog, only_files=None, only_members=None):
    """front() / back() of a container that is empty for a valid value (the zero vector has no coordinates; a graph without vertices has empty
    tables) are only evaluated where the container was tested non-empty; the same for dereferencing std::max_element / min_element of a
    range over it.  On an empty std::vector they read through a null / dangling pointer."""
    from .c10 import guards_formula, implies
    n = 0
    what = 'front() / back() / *max_element are evaluated only for a non-empty container'
    for fn in prog.functions:
        if fn.implicit or fn.body is None or fn.cfg is None or not (fn.file.startswith(env.REPO + '/include') or fn.file.startswith(env.WITNESS + '/positive')):
            continue
        if only_files and not any(x in fn.file for x in only_files):
            continue
        for d in fn.walk():
            cont = None
            if d.k == 'CXXMemberCallExpr' and d.callee and d.callee['name'] in ('front', 'back') and d.object_arg() is not None and \
                    ((prog.base_type(d.object_arg().strip_all().j.get('t')) or {}).get('rec') or '') in ('std::vector', 'std::deque', 'std::list', 'std::basic_string'):
                cont = d.object_arg()
            if d.k in ('CXXOperatorCallExpr', 'UnaryOperator') and d.op == '*':
                inner = (d.c[1] if d.k == 'CXXOperatorCallExpr' and len(d.c) > 1 else d.c[0]).strip_all()
                if inner.k == 'CallExpr' and inner.callee and inner.callee['g'] in ('std::max_element', 'std::min_element') and inner.args():
                    b0 = inner.args()[0].strip_all()
                    if b0.k == 'CXXMemberCallExpr' and b0.callee and b0.callee['name'] in ('begin', 'cbegin') and b0.object_arg() is not None:
                        cont = b0.object_arg()
            if cont is None:
                continue
            if only_members is not None:
                o_ = cont.strip_all()
                if not (o_.k == 'MemberExpr' and o_.decl and o_.decl.get('name') in only_members):
                    continue
            n += 1
            k_ = ex.key(cont)
            g = guards_formula(fn.cfg, d, _nonempty_atomizer(prog, k_))
            atoms = ex.f_atoms(g)
            if 'ne' in atoms and implies(g, ex.f_atom('ne')):
                rep.ok('R07u', d, fn, what, 'guarded by a non-emptiness test of the same container')
            elif [a_ for a_ in atoms if isinstance(a_, tuple) and a_ and a_[0] == 'opaque']:
                rep.info('R07u', d, fn, what, 'guards outside the idiom table')
            else:
                rep.violation('R07u', d, fn, what, '`%s` is evaluated although `%s` may be empty (no emptiness test on the way): for an empty std::vector this reads through a null pointer' % (
                    d.text(40), cont.text(30)), key='R07u|%s|%d' % (fn.g, d.line))
    return n


def r07l(rep, prog, only_files=None):
    """integer division / modulo whose divisor is the size of a container (or a count) that can be zero for a valid input - a forest has no
    feedback vertices, no candidate cycles, no trees - is a division by zero (SIGFPE).  Flagged when the divisor is `X.size()` / `num_vertices` /
    `num_edges` (possibly through a local) of integral type and no test of that quantity against zero guards the division."""
    n = 0
    for fn in prog.functions:
        if fn.implicit or not (fn.file.startswith(env.REPO + '/include') or fn.file.startswith(env.REPO + '/src') or fn.file.startswith(env.WITNESS + '/positive')):
            continue
        if only_files and not any(x in fn.file for x in only_files):
            continue
        nodes = list(fn.walk())
        for ci in fn.ctor_inits:
            if 'node' in ci:
                nodes += list(ci['node'].walk())
        for d in nodes:
            if not (d.k == 'BinaryOperator' and d.op in ('/', '%') and (d.type or {}).get('int')):
                continue
            div = d.c[1].strip_all()
            dv = ex.var_of(div)
            src = div
            if dv is not None and prog.vars[dv].get('kind') == 'local':
                dd = ex.unique_def(fn, dv)
                if dd is not None:
                    src = dd.strip_all()
            is_size = (src.k == 'CXXMemberCallExpr' and src.callee and src.callee['name'] == 'size' and
                       (prog.base_type(src.object_arg().strip_all().j.get('t')) or {}).get('rec', '').startswith('std::')) or \
                      (src.k == 'CallExpr' and src.callee and src.callee['g'] in ('boost::num_vertices', 'boost::num_edges', 'boost::out_degree'))
            if not is_size:
                continue
            n += 1
            what = 'no integer division by a container size / count that is zero for a valid input'
            key_ = ex.key(src)
            guarded = False
            for (c_, pol_) in ex.ast_conditions(d):
                for x in c_.walk():
                    if ex.key(x) == key_ or (dv is not None and ex.var_of(x) == dv) or \
                            (x.k == 'CXXMemberCallExpr' and x.callee and x.callee['name'] == 'empty' and src.k == 'CXXMemberCallExpr' and
                             ex.key(x.object_arg()) == ex.key(src.object_arg())):
                        guarded = True
            # an early exit on the empty case in front of the division
            cfg = fn.cfg
            if cfg is not None and not guarded:
                for (c_, pol_, _b) in cfg.guards_of(d):
                    for x in c_.walk():
                        if ex.key(x) == key_ or (dv is not None and ex.var_of(x) == dv) or \
                                (x.k == 'CXXMemberCallExpr' and x.callee and x.callee['name'] == 'empty' and src.k == 'CXXMemberCallExpr' and
                                 ex.key(x.object_arg()) == ex.key(src.object_arg())):
                            guarded = True
            if guarded:
                rep.ok('R07l', d, fn, what, 'guarded by a test of the divisor')
            else:
                rep.violation('R07l', d, fn, what,
                              '`%s` divides by `%s`, which is 0 for a graph without cycles / an empty collection (a forest has no feedback vertices, trees or '
                              'candidates): integer division by zero (SIGFPE) on a valid input' % (d.text(50), src.text(30)), key='R07l|%s|div-by-size' % fn.g)
    return n


def r07h(rep, prog, only_files=None):
    """container sizes computed with unsigned subtraction do not wrap for the empty graph: the argument of reserve / resize / a sized constructor
    is evaluated in its C++ arithmetic with num_vertices, num_edges and size() set to 0"""
    n = 0
    for fn in prog.functions:
        if fn.implicit or not (fn.file.startswith(env.REPO + '/include') or fn.file.startswith(env.WITNESS + '/positive')):
            continue
        if only_files and not any(x in fn.file for x in only_files):
            continue
        for d in fn.walk():
            if not (d.k == 'CXXMemberCallExpr' and d.callee and d.callee['name'] in ('reserve', 'resize') and d.args()):
                continue
            arg = d.args()[0]
            subs = [x for x in [arg.strip_all()] + list(arg.walk()) if x.k == 'BinaryOperator' and x.op == '-']
            # look through locals
            v = ex.var_of(arg)
            defs = {}
            if v is not None and ex.unique_def(fn, v) is not None:
                defs[v] = ex.unique_def(fn, v)
                subs += [x for x in [defs[v].strip_all()] + list(defs[v].walk()) if x.k == 'BinaryOperator' and x.op == '-']
            if not subs:
                continue
            for x in [arg.strip_all()] + list(arg.walk()) + ([y for y in defs[v].walk()] if v in defs else []):
                xv = ex.var_of(x) if x.k in ('DeclRefExpr', 'MemberExpr') else None
                if xv is None or xv in defs:
                    continue
                if prog.vars[xv]['kind'] == 'local' and ex.unique_def(fn, xv) is not None:
                    defs[xv] = ex.unique_def(fn, xv)
                elif prog.vars[xv]['kind'] == 'field':
                    # a data member assigned earlier in the same function
                    asg = [(a_, rhs) for (a_, rhs) in ex.assignments_to(fn, xv) if rhs is not None and fn.cfg.dominates(a_, d)]
                    if len(asg) == 1:
                        defs[xv] = asg[0][1]
            n += 1
            what = 'the size passed to `%s` does not wrap around for any graph (empty graph, isolated vertices, forests)' % d.callee['name']
            # evaluated in its C++ arithmetic for every small simple graph shape (m edges, n vertices, m <= n(n-1)/2); size() of a container is
            # only known (0) for the empty graph; the guards of the call are evaluated in the same model
            import itertools as _it
            guards = list(ex.ast_conditions(d))
            bad = None
            evaluated = 0
            last_err = None
            for m_, n_ in [(0, 0)] + [(m_, n_) for n_ in range(1, 7) for m_ in range(0, 7) if m_ <= n_ * (n_ - 1) // 2]:
                def bind(s_, m_=m_, n_=n_):
                    if s_.k == 'CallExpr' and s_.callee and s_.callee['g'] in ('boost::num_vertices', 'boost::num_edges'):
                        return n_ if s_.callee['name'] == 'num_vertices' else m_
                    if s_.k == 'CXXMemberCallExpr' and s_.callee and s_.callee['name'] == 'size':
                        if (m_, n_) == (0, 0):
                            return 0
                        raise ex.Unknown('size() of a container for a non-empty graph')
                    return None
                try:
                    if not all(bool(ex.ceval(c_, bind, defs)) == pol_ for (c_, pol_) in guards):
                        continue
                    val = ex.ceval(arg, bind, defs)
                except ex.Unknown as e:
                    last_err = e
                    continue
                evaluated += 1
                if val >= (1 << 62):
                    bad = (m_, n_, val)
                    break
            if bad:
                rep.violation('R07h', d, fn, what, '`%s` evaluates to %d for a graph with %d vertices and %d edges (unsigned wrap-around): the call throws '
                              'std::length_error / std::bad_alloc on a valid input' % (arg.text(40), bad[2], bad[1], bad[0]), key='R07h|%s|%s' % (fn.g, d.callee['name']))
            elif evaluated == 0:
                rep.info('R07h', d, fn, what, 'not evaluable (%s)' % last_err)
            else:
                rep.ok('R07h', d, fn, what, 'no wrap-around in %d graph shapes' % evaluated)
    return n


def r07i(rep, prog):
    """find_min() / top() of a search frontier is evaluated only on paths on which that frontier was tested non-empty (short-circuit evaluation
    counts): d_ary_heap::top() on an empty heap reads a stale element (undefined behaviour, silent with NDEBUG)"""
    n = 0
    from .c10 import guards_formula, implies
    for fn in prog.fns('parmcb::bidirectional_signed_dijkstra'):
        cfg = fn.cfg
        for d in fn.walk():
            if not (d.k == 'CXXMemberCallExpr' and d.callee and d.callee['name'] in ('find_min', 'top') and d.object_arg() is not None):
                continue
            okey = ex.key(d.object_arg())
            okeys = {okey}
            # `auto &cur = frontier.get();` declared in the loop body: the frontier under its other spelling
            ov = ex.var_of(d.object_arg())
            is_ref_local = False
            if ov is not None and prog.vars[ov].get('kind') == 'local' and (prog.type(prog.vars[ov].get('ty')) or {}).get('s', '').rstrip().endswith('&'):
                is_ref_local = True
                od = ex.unique_def(fn, ov)
                if od is not None:
                    decl = [x for x in fn.walk() if x.k == 'VarDecl' and x.decl_id == ov]
                    if decl and cfg.dominates(decl[0], d):
                        okeys.add(ex.key(od))
            n += 1
            what = '`%s` is evaluated only when that frontier is not empty' % d.text(40)

            def atomize(leaf):
                s_ = leaf.strip_all()
                if s_.k == 'CXXMemberCallExpr' and s_.callee and s_.callee['name'] == 'empty' and s_.object_arg() is not None:
                    k_ = ex.key(s_.object_arg())
                    # the frontier itself, or its queue member
                    if k_ in okeys or (isinstance(k_, tuple) and len(k_) == 3 and k_[0] == 'm' and k_[2] in okeys):
                        return ex.f_atom('empty')
                return None
            g = guards_formula(cfg, d, atomize)
            if 'empty' in ex.f_atoms(g) and implies(g, ex.f_not(ex.f_atom('empty'))):
                rep.ok('R07i', d, fn, what, 'reached only after `!empty()` of the same frontier')
            elif is_ref_local and len(okeys) == 1:
                rep.undecided('R07i', d, fn, what, 'the frontier is reached through the reference `%s`, whose referent is not traced' % prog.vars[ov]['name'])
            else:
                rep.violation('R07i', d, fn, what, 'the minimum is read on a path on which the frontier may be empty (the emptiness test does not come first): '
                              'd_ary_heap::top() then returns an already popped element', key='R07i|%s|%s' % (fn.g, d.text(30)))
    return n


def r07j(rep, prog, only_files=None):
    """no library function recurses along the graph: a function that calls itself (directly or through others) from inside a loop over out-edges /
    adjacent vertices has a stack depth proportional to the length of a path, and overflows the stack on long paths, rings, ladders"""
    n = 0
    fns = [f for f in prog.functions if not f.implicit and f.body is not None and (f.file.startswith(env.REPO + '/include') or f.file.startswith(env.WITNESS + '/positive'))]
    byid = {f.fref_id: f for f in fns}
    calls = {f.fref_id: (ex.callees_of(f) & set(byid)) for f in fns}

    def reaches_self(fid):
        seen, work = set(), list(calls.get(fid, ()))
        while work:
            x = work.pop()
            if x == fid:
                return True
            if x in seen:
                continue
            seen.add(x)
            work.extend(calls.get(x, ()))
        return False
    for f in fns:
        if only_files and not any(x in f.file for x in only_files):
            continue
        if not reaches_self(f.fref_id):
            continue
        n += 1
        what = 'library functions do not recurse along the graph (stack depth independent of the input size)'
        rec_calls = [d for d in f.walk() if d.k in ex.CALL_KINDS and d.j.get('callee') is not None and
                     (d.j['callee'] == f.fref_id or (d.j['callee'] in byid and f.fref_id in calls.get(d.j['callee'], ()) or d.j['callee'] in byid and reaches_self(d.j['callee'])))]
        in_graph_loop = False
        for d in rec_calls:
            lp = d.enclosing('ForStmt', 'WhileStmt', 'CXXForRangeStmt', 'DoStmt')
            while lp is not None:
                if any(x.k == 'CallExpr' and x.callee and x.callee['g'] in ('boost::out_edges', 'boost::adjacent_vertices', 'boost::in_edges') for x in lp.walk()) or \
                        any(x.k == 'DeclRefExpr' and x.decl is not None and ex.unique_def(f, x.decl_id) is not None and
                            any(y.k == 'CallExpr' and y.callee and y.callee['g'] in ('boost::out_edges', 'boost::adjacent_vertices') for y in [ex.unique_def(f, x.decl_id).strip_all()])
                            for x in lp.walk() if not (lp.body is not None and lp.body.is_ancestor_of(x))):
                    in_graph_loop = True
                lp = lp.enclosing('ForStmt', 'WhileStmt', 'CXXForRangeStmt', 'DoStmt')
        if in_graph_loop:
            rep.violation('R07j', f.body, f, what, '%s calls itself for every neighbour it visits: the recursion is as deep as the longest path explored, a path / ring / ladder '
                          'with some 10^5 vertices overflows the stack' % f.g, key='R07j|%s|recursion' % f.g)
        else:
            rep.undecided('R07j', f.body, f, what, '%s is recursive; its depth is not bounded by a recognised argument' % f.g)
    return n


def is_temporary(arg):
    """the argument expression materialises a temporary that is bound to the reference parameter"""
    n = arg
    while n.k in ('ImplicitCastExpr', 'ParenExpr', 'ExprWithCleanups') and n.c:
        n = n.c[0]
    return n.k == 'MaterializeTemporaryExpr'


def durable(site):
    """the constructed object outlives the full expression"""
    up = site.up()
    while up is not None and up.k in ('CXXFunctionalCastExpr', 'CXXBindTemporaryExpr'):
        up = up.up()
    if up is None:
        return True      # ctor initialiser of a member
    if up.k in ('VarDecl', 'CXXNewExpr'):
        return True
    if up.k == 'CXXConstructExpr' and up.callee and (up.callee.get('copy_ctor') or up.callee.get('move_ctor')):
        return durable(up)
    return False


def r07b(rep, prog):
    binds = ref_field_bindings(prog)
    classes = set()
    nsites = 0
    # records by name for emplace forwarding
    ctors_by_rec = {}
    for fid, (f, lst) in binds.items():
        ctors_by_rec.setdefault(f.fref.get('rec_ty'), []).append((f, lst))
        classes.add(f.fref.get('rec'))
    for fn in prog.functions:
        if fn.implicit:
            continue
        sites = []
        for n in fn.walk():
            if n.k in ex.CTOR_KINDS and n.callee_id in binds:
                f, lst = binds[n.callee_id]
                sites.append((n, f, lst, n.c, durable(n), 'direct'))
            if n.k == 'CXXMemberCallExpr' and n.callee and n.callee['name'] in ('emplace_back', 'emplace', 'emplace_front'):
                o = n.object_arg()
                ot = prog.base_type(o.strip_all().j.get('t')) if o is not None else None
                if not ot:
                    continue
                for ta in ot.get('targs', []) or []:
                    if not isinstance(ta, int):
                        continue
                    for (f, lst) in ctors_by_rec.get(ta, []) + ctors_by_rec.get(prog.types[ta].get('base', -1), []):
                        if len(f.param_ids) == len(n.args()):
                            sites.append((n, f, lst, n.args(), True, 'emplace'))
                    break
            if n.k == 'CallExpr' and n.callee and n.callee['name'] in ('make_shared', 'make_unique') :
                rt = prog.base_type(n.j.get('t')) or {}
                for ta in rt.get('targs', []) or []:
                    if isinstance(ta, int):
                        for (f, lst) in ctors_by_rec.get(ta, []):
                            if len(f.param_ids) == len(n.args()):
                                sites.append((n, f, lst, n.args(), True, n.callee['name']))
                        break
        for (n, f, lst, args, dur, how) in sites:
            nsites += 1
            for (pix, fd) in lst:
                if pix >= len(args):
                    continue
                a = args[pix]
                what = 'reference member %s::%s is not bound to a temporary that dies before the object' % (
                    f.fref.get('rec', '?').split('::')[-1], fd['name'])
                if not is_temporary(a):
                    rep.ok('R07b', a, fn, what, 'bound to an lvalue (%s construction)' % how)
                    continue
                at = prog.base_type(a.j.get('t')) or {}
                if not dur:
                    rep.ok('R07b', a, fn, what, 'temporary bound, but the constructed object is itself a temporary of the same full expression')
                elif at.get('empty'):
                    rep.info('R07b', a, fn, what, 'temporary of the EMPTY class %s: nothing is ever read through it, no run can observe a failure' % (at.get('rec') or at.get('s')))
                else:
                    rep.violation('R07b', a, fn, what,
                                  'the %s argument `%s` is a temporary of non-empty type %s; the member keeps referring to it after the '
                                  'full expression ends' % (how, a.text(50), at.get('rec') or at.get('s')),
                                  key='R07b|%s|%s::%s' % (fn.g, f.fref.get('rec'), fd['name']))
    return len(classes), nsites


def r07d(rep, prog, only_files=None):
    """*c.end()"""
    roots = [f for f in prog.functions if f.g.startswith('witness::') or f.g == 'main']
    reach = {f.fref_id for f in ex.reachable_functions(prog, roots)} if roots else None
    n = 0
    for fn in prog.functions:
        if not fn.file.startswith(env.REPO + '/include'):
            continue
        if only_files is not None and not any(x in os.path.basename(fn.file) for x in only_files):
            continue
        for d in fn.walk():
            s = d
            inner = None
            if d.k == 'CXXOperatorCallExpr' and d.op == '*' and len(d.c) >= 2:
                inner = d.c[1].strip_all()
            elif d.k == 'UnaryOperator' and d.op == '*' and d.c:
                inner = d.c[0].strip_all()
            if inner is None:
                continue
            n += 1
            is_end = (inner.k == 'CXXMemberCallExpr' and inner.callee and inner.callee['name'] in ('end', 'cend')) or \
                     (inner.k == 'CallExpr' and inner.callee and inner.callee['g'] in ('std::end', 'std::cend'))
            if not is_end:
                continue
            what = 'no dereference of a past-the-end iterator'
            if reach is not None and fn.fref_id not in reach:
                rep.info('R07d', d, fn, what, '`%s` dereferences end(), but %s is not reachable from any entry point the property lists' % (d.text(40), fn.g))
            else:
                rep.violation('R07d', d, fn, what, '`%s` reads one past the last element' % d.text(40), key='R07d|%s|deref-end' % fn.g)
    return n


def r07e(rep, prog):
    """unchecked v[i] in a blocked_range(0, N) body"""
    count = 0
    for fn in prog.functions:
        if not fn.file.startswith(env.REPO + '/include'):
            continue
        for call in fn.walk():
            if call.k != 'CallExpr' or not call.callee or not call.callee['g'].startswith('tbb::') or \
                    call.callee['name'] not in ('parallel_for', 'parallel_reduce'):
                continue
            rng = call.args()[0].strip_all() if call.args() else None
            if rng is None or rng.k not in ex.CTOR_KINDS or len(rng.c) < 2:
                continue
            lo, hi = rng.c[0], rng.c[1]
            if lo.strip_all().cv != 0:
                continue
            for a in call.args()[1:]:
                lam = a.strip_all()
                if lam.k != 'LambdaExpr':
                    continue
                for op in lam.j.get('lambda_ops', ()):
                    lf = prog.fn_of_fref(op)
                    if lf is None or not lf.param_ids:
                        continue
                    rparam = lf.param_ids[0]
                    # induction variables: i = r.begin(); i </!= r.end()
                    ivs = set()
                    for d in lf.walk():
                        if d.k == 'VarDecl' and d.c:
                            ini = d.c[0].strip_all()
                            if ini.k == 'CXXMemberCallExpr' and ini.callee['name'] == 'begin' and ex.var_of(ini.object_arg()) == rparam:
                                ivs.add(d.decl_id)
                    for d in lf.walk():
                        if d.k == 'CXXOperatorCallExpr' and d.op == '[]' and len(d.c) == 3 and ex.var_of(d.c[2]) in ivs:
                            cont = d.c[1]
                            ct = prog.base_type(cont.strip_all().j.get('t')) or {}
                            if (ct.get('rec') or '') not in ('std::vector', 'std::deque', 'std::array'):
                                continue
                            count += 1
                            what = 'unchecked `%s` stays inside the container for every index of the range' % d.text(30)
                            hk = ex.key(hi)
                            cv = ex.var_of(cont)
                            ok = False
                            if hk[0] == 'call' and hk[1].endswith('::size') and len(hk) >= 3 and hk[2] == ex.key(cont):
                                ok = True
                                rep.ok('R07e', d, fn, what, 'range bound is %s.size()' % cont.text(20))
                                continue
                            # a local vector constructed with exactly the range bound as its size and never resized
                            if cv is not None and prog.vars[cv].get('kind') == 'local':
                                decl = [x for x in fn.walk() if x.k == 'VarDecl' and x.decl_id == cv]
                                sized = decl and decl[0].c and decl[0].c[0].strip().k in ex.CTOR_KINDS and decl[0].c[0].strip().c and \
                                    ex.key(decl[0].c[0].strip().c[0]) == hk and not ex.vars_in(hi) & set(
                                        x_ for x_ in ex.vars_in(hi) if [a_ for (a_, _r) in ex.assignments_to(fn, x_) if a_.k != 'VarDecl'])
                                shrink = [x for x in fn.walk() if x.k == 'CXXMemberCallExpr' and x.callee and x.callee['name'] in (
                                    'resize', 'clear', 'pop_back', 'erase', 'assign', 'swap', 'shrink_to_fit') and ex.var_of(x.object_arg()) == cv]
                                grow_src = [x for x in fn.walk() if x.k == 'CXXMemberCallExpr' and x.callee and x.callee['name'] in (
                                    'push_back', 'emplace_back', 'insert', 'erase', 'clear', 'pop_back', 'resize') and x.object_arg() is not None and
                                    hk[0] == 'call' and len(hk) >= 3 and ex.key(x.object_arg()) == hk[2]]
                                if sized and not shrink and not grow_src:
                                    rep.ok('R07e', d, fn, what, '%s is constructed with size `%s`, the range bound, and never resized' % (cont.text(20), hi.text(30)))
                                    continue
                            verdict, detail = container_filled_fully(prog, fn, cont, hi)
                            if verdict == 'ok':
                                rep.ok('R07e', d, fn, what, detail)
                            elif verdict == 'violation':
                                rep.violation('R07e', d, fn, what, detail, key='R07e|%s|%s' % (fn.g, cont.text(20)))
                            else:
                                rep.undecided('R07e', d, fn, what, detail)
    return count


def container_filled_fully(prog, fn, cont, hi, depth=0):
    """cont is (a reference to) a vector; hi is boost::num_vertices(g).  Follow cont through reference members /
    constructor arguments to the place where it is filled, and require an unconditional push_back in a full loop
    over boost::vertices(g)"""
    h = hi.strip_all()
    if not (h.k == 'CallExpr' and h.callee and h.callee['g'] in ('boost::num_vertices', 'boost::num_edges')):
        return 'undecided', 'range bound `%s` is neither %s.size() nor num_vertices/num_edges' % (hi.text(30), cont.text(20))
    want_range = 'boost::vertices' if h.callee['name'] == 'num_vertices' else 'boost::edges'
    v = ex.var_of(cont)
    if v is None:
        return 'undecided', 'container expression is not a variable'
    vd = prog.vars[v]
    targets = []
    if vd['kind'] == 'field':
        # which constructor argument initialises the field, and what is passed there
        for f in prog.functions:
            if f.fref.get('ctor') and not f.implicit:
                for ci in f.ctor_inits:
                    if ci.get('field') == v and 'node' in ci:
                        pv = ex.var_of(ci['node'])
                        if pv in f.param_ids:
                            pix = f.param_ids.index(pv)
                            for g in prog.functions:
                                for n in g.walk():
                                    if n.k in ex.CTOR_KINDS and n.callee_id == f.fref_id and pix < len(n.c):
                                        targets.append((g, n.c[pix]))
    elif vd['kind'] in ('local',):
        targets.append((fn, cont))
    elif vd['kind'] == 'param':
        pix = fn.param_ids.index(v)
        for g in prog.functions:
            for n in g.walk():
                if n.k in ex.CALL_KINDS and n.callee_id == fn.fref_id and pix < len(n.args()):
                    targets.append((g, n.args()[pix]))
    if not targets:
        return 'undecided', 'could not find where %s is filled' % vd['name']
    details = []
    for (g, expr) in targets:
        lv = ex.var_of(expr)
        if lv is None:
            return 'undecided', 'argument `%s` is not a variable' % expr.text(30)
        if prog.vars[lv]['kind'] != 'local':
            if depth < 3:
                r = container_filled_fully(prog, g, expr, hi, depth + 1)
                if r[0] != 'ok':
                    return r
                details.append(r[1])
                continue
            return 'undecided', 'fill site too far'
        pushes = [n for n in g.walk() if n.k == 'CXXMemberCallExpr' and n.callee and n.callee['name'] in ('push_back', 'emplace_back')
                  and ex.var_of(n.object_arg()) == lv]
        others = [n for n in g.walk() if n.k == 'CXXMemberCallExpr' and n.callee and n.callee['name'] in (
            'erase', 'pop_back', 'resize', 'clear', 'assign', 'insert') and ex.var_of(n.object_arg()) == lv]
        if len(pushes) != 1 or others:
            return 'undecided', '%s is filled by %d push_back site(s) and %d other mutation(s)' % (prog.vars[lv]['name'], len(pushes), len(others))
        pu = pushes[0]
        loop = pu.enclosing('ForStmt', 'WhileStmt', 'CXXForRangeStmt')
        if loop is None:
            return 'undecided', 'push_back is not in a loop'
        cfg = g.cfg
        # the loop must range over boost::vertices(g) and the push must be unconditional inside it
        ranges = [n for n in g.walk() if n.k == 'CallExpr' and n.callee and n.callee['g'] == want_range and
                  (loop.is_ancestor_of(n) or cfg.dominates(n, loop.cond if loop.cond is not None else pu))]
        if not ranges:
            return 'undecided', 'fill loop does not iterate %s' % want_range
        cond_guards = [c for (c, pol, _b) in cfg.guards_of(pu) if not (loop.cond is not None and (loop.cond.is_ancestor_of(c) or loop.cond.strip() is c))
                       and loop.is_ancestor_of(c)]
        if cond_guards:
            return 'violation', ('%s is filled conditionally (`%s`, line %d) while the task range still runs over all %s(g) '
                                 'indices: %s[i] reads past the end when an element is skipped' % (
                                     prog.vars[lv]['name'], cond_guards[0].text(40), cond_guards[0].line,
                                     h.callee['name'], prog.vars[v]['name']))
        details.append('%s filled by an unconditional push_back over %s (%s:%d)' % (prog.vars[lv]['name'], want_range, os.path.basename(g.file), pu.line))
    return 'ok', '; '.join(details)


def run(rep, tier):
    rep.rule('R05a', 'R07a: no internal descriptor escapes through the caller\'s iterator', floor=3)
    rep.rule('R07b', 'reference members are not bound to dying non-empty temporaries', floor=20)
    rep.rule('R10a', 'R07c: a NUL written into the fgets buffer only replaces a line terminator (never buffer[-1])', floor=1)
    rep.rule('R10s', 'R07c: %s conversions cannot overflow', floor=1)
    rep.rule('R10b', 'R07c: the optional trailing weight is initialised before sscanf (no read of an indeterminate double on unweighted lines)', floor=1)
    rep.rule('R07d', 'no dereference of end()', floor=0)
    rep.rule('R07p', 'std::accumulate and friends sum in a type as wide as the elements (the initial value fixes the accumulator type)', floor=0)
    rep.rule('R07q', 'no use of a moved-from standard container without re-initialisation', floor=0)
    rep.rule('R07r', 'no reference to a vector element is used after the vector may have reallocated', floor=0)
    rep.rule('R07s', 'the circuit table of the isometric builder is never dereferenced at end()', floor=0)
    rep.rule('R07t', 'sorted-range algorithms only see sorted ranges', floor=0)
    rep.rule('R07u', 'front() / back() / *max_element only on containers tested non-empty', floor=0)
    rep.rule('R07v', 'no pointer to a block-local object is dereferenced after its block ended', floor=0)
    rep.rule('R07o', 'comparators handed to std::sort and the other ordering algorithms are irreflexive', floor=2)
    rep.rule('R07j', 'no recursion along the graph in library functions', floor=0)
    rep.rule('R06d', 'the scratch maps of the closing-path search are private to each search (no stale labels, no sharing between TBB tasks)', floor=2)
    rep.rule('R07i', 'the minimum of a frontier / heap is only read when it is non-empty', floor=1)
    rep.rule('R07h', 'sizes computed with unsigned subtraction do not wrap for the empty graph', floor=0)
    rep.rule('R07g', 'no mutable function-local static state in library functions', floor=1)
    rep.rule('R04c', 'rank slices of the MPI variants are well-formed ranges for every total and communicator size (a range whose start lies beyond its end / beyond the sequence is an allocation failure or an out-of-bounds copy; shared with C04)', floor=0)
    rep.rule('R07k', 'numeric_limits<T>::infinity() only for floating-point T (it is 0 for the integral weight types the templates are instantiated with)', floor=0)
    rep.rule('R07l', 'no integer division by a container size that is zero for a valid input', floor=0)
    rep.rule('R07f', 'no plain + on a distance that may be the infinity marker (signed overflow for integral weights)', floor=0)
    rep.rule('R20a', 'the heap-allocated TBB control object has an owner that releases it (no leak per call)', floor=1)
    rep.rule('R07e', 'unchecked indexing inside blocked_range task bodies stays in bounds', floor=1)
    tus = [env.witness_tu()]
    if tier == 'thorough':
        tus += env.repo_tus()
    progs = env.extract(tus, 'full')
    rep.saw_programs(progs.values())
    nclasses = nsites = nderef = 0
    for tu, prog in progs.items():
        F, W = approx.analyse(prog)
        approx.report(rep, F, ['R05a', 'R06d'])
        c, s = r07b(rep, prog)
        r07b_params(rep, prog)
        r07f(rep, prog)
        r07g(rep, prog)
        r07k(rep, prog)
        r07l(rep, prog)
        r07h(rep, prog)
        r07i(rep, prog)
        r07j(rep, prog)
        # "releases what it allocated": the control object allocated by the concurrency knob (shared with C20)
        from . import c20
        sub20 = type(rep)(rep.prop, rep.tier)
        c20.r20a(sub20, prog)
        for i in sub20.instances.values():
            rep.add('R20a', i.site, i.function, i.what, i.status, i.detail, key=i.key)
        nclasses, nsites = max(nclasses, c), max(nsites, s)
        nderef += r07d(rep, prog)
        r07o(rep, prog)
        r07p(rep, prog)
        r07q(rep, prog)
        r07r(rep, prog)
        r07s(rep, prog)
        r07t(rep, prog)
        r07u(rep, prog)
        r07v(rep, prog)
        r07e(rep, prog)
        from . import c04
        sub4 = type(rep)(rep.prop, rep.tier)
        c04.check_slices(sub4, prog)
        for i in sub4.instances.values():
            if i.rule == 'R04c':
                rep.add(i.rule, i.site, i.function, i.what, i.status, i.detail, key=i.key)
        for fn in prog.fns(c10.READER):
            sub = type(rep)(rep.prop, rep.tier)
            c10.check_reader(sub, prog, fn)
            for i in sub.instances.values():
                if i.rule in ('R10a', 'R10s', 'R10b'):
                    rep.add(i.rule, i.site, i.function, i.what, i.status, i.detail, key=i.key)
    rep.extra['classes_with_reference_members'] = nclasses
    rep.extra['construction_sites'] = nsites
    rep.extra['dereferences_examined'] = nderef
    if nderef < 50:
        rep.analysis_broken('only %d iterator dereferences examined by R07d' % nderef)
    # positives
    pos = os.path.join(env.WITNESS, 'positive', 'c07_shapes.cc')
    pp = env.extract([pos], 'full')[pos]
    prep = type(rep)(rep.prop, rep.tier)
    r07b(prep, pp)
    prep6 = type(rep)(rep.prop, rep.tier)
    r07j(prep6, pp)
    rep.positive('R07j', 'witness/positive/c07_shapes.cc', any(i.status == 'violation' for i in prep6.instances.values()))
    prep5 = type(rep)(rep.prop, rep.tier)
    r07h(prep5, pp)
    rep.positive('R07h', 'witness/positive/c07_shapes.cc', any(i.status == 'violation' for i in prep5.instances.values()))
    prep7 = type(rep)(rep.prop, rep.tier)
    r07k(prep7, pp)
    r07l(prep7, pp)
    r07o(prep7, pp)
    r07p(prep7, pp)
    r07q(prep7, pp)
    r07r(prep7, pp)
    r07v(prep7, pp)
    rep.positive('R07v', 'witness/positive/c07_shapes.cc', any(i.status == 'violation' and i.rule == 'R07v' for i in prep7.instances.values()))
    rep.positive('R07r', 'witness/positive/c07_shapes.cc', any(i.status == 'violation' and i.rule == 'R07r' for i in prep7.instances.values()))
    rep.positive('R07q', 'witness/positive/c07_shapes.cc', any(i.status == 'violation' and i.rule == 'R07q' for i in prep7.instances.values()))
    rep.positive('R07p', 'witness/positive/c07_shapes.cc', any(i.status == 'violation' and i.rule == 'R07p' for i in prep7.instances.values()))
    rep.positive('R07o', 'witness/positive/c07_shapes.cc', any(i.status == 'violation' and i.rule == 'R07o' for i in prep7.instances.values()))
    rep.positive('R07k', 'witness/positive/c07_shapes.cc', any(i.status == 'violation' and i.rule == 'R07k' for i in prep7.instances.values()))
    rep.positive('R07l', 'witness/positive/c07_shapes.cc', any(i.status == 'violation' and i.rule == 'R07l' for i in prep7.instances.values()))
    prep4 = type(rep)(rep.prop, rep.tier)
    r07g(prep4, pp)
    rep.positive('R07g', 'witness/positive/c07_shapes.cc', any(i.status == 'violation' for i in prep4.instances.values()))
    prep3 = type(rep)(rep.prop, rep.tier)
    r07f(prep3, pp)
    rep.positive('R07f', 'witness/positive/c07_shapes.cc', any(i.status == 'violation' for i in prep3.instances.values()))
    prep2 = type(rep)(rep.prop, rep.tier)
    r07b_params(prep2, pp)
    rep.positive('R07b', 'witness/positive/c07_shapes.cc (by-value parameter)', any(i.status == 'violation' for i in prep2.instances.values()))
    saved = env.REPO
    fired_d = False
    for fn in pp.functions:
        for d in fn.walk():
            if d.k == 'CXXOperatorCallExpr' and d.op == '*' and len(d.c) >= 2:
                inner = d.c[1].strip_all()
                if inner.k == 'CXXMemberCallExpr' and inner.callee and inner.callee['name'] == 'end':
                    fired_d = True
    rep.positive('R07b', 'witness/positive/c07_shapes.cc', any(i.status == 'violation' and i.rule == 'R07b' for i in prep.instances.values()))
    rep.positive('R07d', 'witness/positive/c07_shapes.cc', fired_d)
    try:
        pos2 = os.path.join(env.WITNESS, 'positive', 'approx_broken.cc')
        p2 = env.extract([pos2], 'full', ('first:-I' + os.path.join(env.WITNESS, 'positive', 'broken_include'),))[pos2]
        F, W = approx.analyse(p2)
        rep.positive('R05a', 'witness/positive/approx_broken.cc', any(f[0] == 'R05a' and f[4] == 'violation' for f in F))
    except env.AnalysisBroken as e:
        rep.analysis_broken('positive example approx_broken.cc does not parse against the current headers')
    rep.assume('temporaries of empty classes bound to reference members (vec_adj_list_vertex_id_map, adj_list_edge_property_map) are a '
               'formal lifetime violation no execution can observe; they are reported as info, not as violations')
    rep.note('NOT claimed: absence of out-of-bounds accesses, signed overflow, leaks and uninitialised reads in general')
