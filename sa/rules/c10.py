"""C10 - DIMACS reader and input validators describe the file faithfully.

R10a  the last byte of a line is only cut if it is a line terminator            (A1)
R10b  the optional weight defaults to 1 on every edge line                      (A1)
R10c  an edge naming an undeclared vertex raises an error before the map is read (A1/A2)
R10d  one vertex per declared node (1-based names), one edge per edge line, its weight stored (A4)
R10e  validators: exists-loops over the whole edge / vertex range with the right predicate (A3)
"""
import os
import re

from lib import env, ex
from . import common

TITLE = 'C10: line-handling clauses of read_dimacs_from_file and the predicate shape of the three validators.'
READER = 'parmcb::read_dimacs_from_file'


def conversions(fmt):
    """scanf conversions that consume an argument, in order"""
    return [m.group(0) for m in re.finditer(r'%(?!%)(?!\*)[0-9]*(?:hh|h|ll|l|L|z|j|t)?[a-zA-Z\[]', fmt)]


def scanf_bindings(call):
    """[(conversion, var_id or None, arg node)] for sscanf(buf, "fmt", args...)"""
    args = call.args()
    if len(args) < 2:
        return None, []
    fmt = None
    for s in ex.string_literals(args[1]):
        fmt = s.value
        break
    if fmt is None:
        return None, []
    convs = conversions(fmt)
    res = []
    for c, a in zip(convs, args[2:]):
        s = a.strip_all()
        vid = None
        if s.k == 'UnaryOperator' and s.op == '&':
            vid = ex.var_of(s.c[0])
        else:
            vid = ex.var_of(s)
        res.append((c, vid, a))
    return fmt, res


def buffer_test(n, bufvar):
    """if n is `buf[c] == 'x'` return (index const, char) else None"""
    s = n.strip_all()
    if s.k == 'BinaryOperator' and s.op == '==':
        for a, b in ((s.c[0], s.c[1]), (s.c[1], s.c[0])):
            aa = a.strip_all()
            if aa.k == 'ArraySubscriptExpr' and ex.var_of(aa.c[0]) == bufvar:
                ix = aa.c[1].strip_all().cv
                ch = b.strip_all().cv
                if ch is None:
                    ch = b.cv
                if ix is not None and ch is not None:
                    return (ix, ch)
    return None


def guards_formula(cfg, node, atomize):
    """exact path condition of node within the current loop iteration (see ex.PathCond); unrecognised leaves
    become opaque atoms"""
    return ex.path_condition(cfg, node, atomize)


def implies(f, g):
    atoms = sorted(set(ex.f_atoms(f) + ex.f_atoms(g)), key=repr)
    import itertools
    for vals in itertools.product((False, True), repeat=len(atoms)):
        envv = dict(zip(atoms, vals))
        if ex.f_eval(f, envv) and not ex.f_eval(g, envv):
            return False
    return True


def check_reader(rep, prog, fn):
    cfg = fn.cfg
    nodes = list(fn.walk())
    fgets = [n for n in nodes if n.k == 'CallExpr' and n.callee and n.callee['name'] == 'fgets']
    if not fgets:
        rep.analysis_broken('read_dimacs_from_file no longer reads lines with fgets (anchor vanished): undecidable')
        return
    line_loop = None
    for fg in fgets:
        for a in fg.ancestors():
            if a.k in ('WhileStmt', 'ForStmt', 'DoStmt') and a.cond is not None and a.cond.is_ancestor_of(fg):
                line_loop = a
                break
    bufvars = set(ex.var_of(fg.args()[0]) for fg in fgets if fg.args())
    bufvars.discard(None)
    # R10f: the property is stated for lines shorter than the reader's 1024-byte buffer; a smaller buffer makes fgets return such lines in
    # pieces, each piece dispatched on its own first character (a long comment injects edges / problem lines)
    for fg in fgets:
        whatf = 'the line buffer holds every line shorter than 1024 bytes in one piece'
        bv = ex.var_of(fg.args()[0]) if fg.args() else None
        bt = prog.base_type(prog.vars[bv]['ty']) if bv is not None else None
        size = (bt or {}).get('array_size')
        if size is None and bv is not None:
            # char *const buffer = line.data();  with  std::array<char, N> line
            bd = ex.unique_def(fn, bv)
            bdd = bd.strip_all() if bd is not None else None
            if bdd is not None and bdd.k == 'CXXMemberCallExpr' and bdd.callee and bdd.callee['name'] == 'data' and bdd.object_arg() is not None:
                at_ = prog.base_type(bdd.object_arg().strip_all().j.get('t')) or {}
                if (at_.get('rec') or '') == 'std::array':
                    ints_ = [a_['int'] for a_ in (at_.get('targs') or []) if isinstance(a_, dict) and 'int' in a_]
                    size = ints_[0] if ints_ else None
        lim = fg.args()[1].strip_all().cv if len(fg.args()) > 1 else None
        if lim is None and len(fg.args()) > 1:
            lim = fg.args()[1].cv
        if size is None or lim is None:
            rep.undecided('R10f', fg, fn, whatf, 'buffer is not a fixed-size array or the fgets limit is not a constant')
        elif lim > size:
            rep.violation('R10f', fg, fn, whatf, 'fgets may write %d bytes into a buffer of %d' % (lim, size), key='R10f|%s|overflow' % fn.g)
        elif min(size, lim) < 1024:
            rep.violation('R10f', fg, fn, whatf, 'the buffer / fgets limit is %d bytes: a line of %d..1023 characters is read in pieces and every piece is '
                          'interpreted as a line of its own' % (min(size, lim), min(size, lim)), key='R10f|%s|small-buffer' % fn.g)
        else:
            rep.ok('R10f', fg, fn, whatf, 'buffer %d bytes, fgets limit %d' % (size, lim))

    # ---------------------------------------------------------------- R10a
    for buf in bufvars:
        bname = prog.vars[buf]['name']
        stores = []
        for n in nodes:
            if n.k == 'BinaryOperator' and n.op == '=':
                lhs = n.c[0].strip_all()
                if lhs.k == 'ArraySubscriptExpr' and ex.var_of(lhs.c[0]) == buf:
                    v = n.c[1].strip_all().cv
                    if v is None:
                        v = n.c[1].cv
                    stores.append((n, lhs.c[1], v))
        what = 'a NUL stored into %s only replaces a line terminator' % bname
        # stores through a pointer into the buffer: char *p = strpbrk(buf, "\r\n") / strchr(buf, '\n'); *p = '\0';
        for n in nodes:
            if n.k == 'BinaryOperator' and n.op == '=':
                lhs = n.c[0].strip_all()
                if lhs.k == 'UnaryOperator' and lhs.op == '*':
                    pv = ex.var_of(lhs.c[0])
                    pd = ex.unique_def(fn, pv) if pv is not None else None
                    pc_ = pd.strip_all() if pd is not None else None
                    if pc_ is not None and pc_.k == 'CallExpr' and pc_.callee and pc_.callee['name'] in ('strpbrk', 'strchr', 'strrchr', 'memchr') and \
                            pc_.args() and ex.var_of(pc_.args()[0]) == buf:
                        val = n.c[1].strip_all().cv
                        if val != 0:
                            rep.undecided('R10a', n, fn, what, 'store of a non-NUL value into the line buffer')
                            continue
                        if pc_.callee['name'] == 'strpbrk':
                            lit = None
                            for s_ in ex.string_literals(pc_.args()[1]):
                                lit = s_.value
                            good = lit is not None and '\n' in lit and set(lit) <= set('\r\n')
                            shown = repr(lit)
                        else:
                            ch = pc_.args()[1].strip_all().cv
                            good = ch in (10, 13)
                            shown = repr(chr(ch)) if isinstance(ch, int) and 0 <= ch < 256 else '?'
                        if good:
                            rep.ok('R10a', n, fn, what, 'the pointer comes from %s(%s, %s): the first line terminator (the store is skipped when there is none)' % (
                                pc_.callee['name'], bname, shown))
                        else:
                            rep.violation('R10a', n, fn, what, '%s searches for %s, not for the line terminators: the line is cut at another character' % (
                                pc_.callee['name'], shown), key='R10a|%s|pointer-cut' % fn.g)
                        stores.append((n, None, 'done'))
        stores_idx = [x for x in stores if x[2] != 'done']
        if not stores:
            rep.ok('R10a', fgets[0], fn, what, 'no store into the line buffer at all')
        for (st, idx, val) in stores_idx:
            if val != 0:
                rep.undecided('R10a', st, fn, what, 'store of a non-NUL value into the line buffer')
                continue
            ix = idx.strip_all()
            if ix.k == 'CallExpr' and ix.callee and ix.callee['name'] == 'strcspn':
                a = ix.args()
                lit = None
                for s in ex.string_literals(a[1]):
                    lit = s.value
                if ex.var_of(a[0]) == buf and lit is not None and '\n' in lit and set(lit) <= set('\r\n'):
                    rep.ok('R10a', st, fn, what, 'index is strcspn(%s, CR/LF): the first terminator or the final NUL' % bname)
                else:
                    rep.violation('R10a', st, fn, what, 'strcspn reject set %r is not exactly the line terminators' % lit,
                                  key='R10a|%s|strcspn-set' % fn.g)
                continue
            if ix.cv is not None:
                rep.ok('R10a', st, fn, what, 'constant index %d' % ix.cv, trivial=True)
                continue
            resolve = lambda vid: ex.unique_def(fn, vid)
            L = ex.lin(idx, resolve)
            strlen_atoms = [a for a in L.terms if isinstance(a, tuple) and a[0] == 'call' and a[1] == 'strlen']
            if len(strlen_atoms) == 1 and L.terms[strlen_atoms[0]] == 1 and len(L.terms) == 1:
                # guarded by  buf[same index] == '\n' (or '\r') ?
                def atomize(leaf):
                    s = leaf.strip_all()
                    if s.k == 'BinaryOperator' and s.op in ('==', '!='):
                        for a, b in ((s.c[0], s.c[1]), (s.c[1], s.c[0])):
                            aa = a.strip_all()
                            if aa.k == 'ArraySubscriptExpr' and ex.var_of(aa.c[0]) == buf and \
                                    ex.lin(aa.c[1], resolve) == L:
                                ch = b.strip_all().cv
                                if ch is None:
                                    ch = b.cv
                                if ch in (10, 13):
                                    f = ex.f_atom(('isnl', ch))
                                    return f if s.op == '==' else ex.f_not(f)
                    return None
                g = guards_formula(cfg, st, atomize)
                goal = ex.f_or(ex.f_atom(('isnl', 10)), ex.f_atom(('isnl', 13)))
                if implies(g, goal):
                    rep.ok('R10a', st, fn, what, 'store is guarded by a test that the byte is a line terminator')
                else:
                    rep.violation('R10a', st, fn, what,
                                  '`%s` cuts the byte at strlen(%s)%+d unconditionally: the last character of an '
                                  'unterminated final line is lost (and index -1 is written for an empty string)' % (
                                      st.text(60), bname, L.const), key='R10a|%s|unguarded-cut' % fn.g)
                continue
            rep.undecided('R10a', st, fn, what, 'index `%s` is outside the recognised idioms' % idx.text(50))

    # ---------------------------------------------------------------- sscanf calls
    scans = [n for n in nodes if n.k == 'CallExpr' and n.callee and n.callee['name'] == 'sscanf']
    edge_scan = None
    p_scan = None
    for sc in scans:
        fmt, binds = scanf_bindings(sc)
        if fmt is None:
            continue
        if '%lf' in fmt or '%f' in fmt or '%lg' in fmt:
            edge_scan = (sc, fmt, binds)
        elif fmt.lstrip().startswith('p'):
            p_scan = (sc, fmt, binds)
        # R07c-style: %s needs a width or an equally large destination
        for (c, vid, a) in binds:
            if c.endswith('s') and not re.search(r'\d', c):
                src = ex.var_of(sc.args()[0])
                st = prog.base_type(prog.vars[src]['ty']) if src is not None else None
                dt = prog.base_type(prog.vars[vid]['ty']) if vid is not None else None
                whats = '%%s conversion of sscanf cannot overflow its destination'
                if st and dt and st.get('array_size') and dt.get('array_size'):
                    if dt['array_size'] >= st['array_size']:
                        rep.ok('R10s', sc, fn, whats, 'destination %d bytes >= source %d bytes' % (dt['array_size'], st['array_size']))
                    else:
                        rep.violation('R10s', sc, fn, whats, 'destination array (%d) smaller than the source line buffer (%d)' % (
                            dt['array_size'], st['array_size']), key='R10s|%s|%%s' % fn.g)
                else:
                    rep.undecided('R10s', sc, fn, whats, 'array bounds not constant')

    # the weight is parsed in double precision: a single-precision parser (strtof / std::stof, %f into a float) rounds decimal weights and
    # integers above 2^24 and flushes tiny positive weights to 0 (which then fail the positivity gate)
    for n in nodes:
        if n.k == 'CallExpr' and n.callee and n.callee['name'] in ('strtof', 'stof'):
            rep.violation('R10b', n, fn, 'the weight of an edge line is parsed in double precision',
                          '`%s` parses the weight as a float: 0.1 is stored as 0.10000000149, 16777217 as 16777216 and 1e-50 as 0 (a positive weight then fails '
                          'the positivity check)' % n.text(40), key='R10b|%s|single-precision' % fn.g)
    for sc_ in scans:
        fmt_, binds_ = scanf_bindings(sc_)
        for (c_, vid_, a_) in (binds_ or []):
            if c_[-1] in 'fgeE' and 'l' not in c_ and 'L' not in c_ and vid_ is not None:
                rep.violation('R10b', sc_, fn, 'the weight of an edge line is parsed in double precision',
                              'conversion `%s` reads a float, not a double' % c_, key='R10b|%s|single-precision' % fn.g)
    if edge_scan is None:
        rep.analysis_broken('edge-line sscanf with a floating-point weight conversion not found in the reader')
        return
    sc, fmt, binds = edge_scan
    ints = [vid for (c, vid, a) in binds if c[-1] in 'du' and 'l' not in c[:-1] or c.endswith('lu') or c.endswith('ld')]
    ints = [vid for (c, vid, a) in binds if c[-1] in 'dui']
    wvar = [vid for (c, vid, a) in binds if c[-1] in 'fg'][-1]

    # ---------------------------------------------------------------- R10b
    whatb = 'the weight variable bound to the trailing %lf is 1 when the line omits it'
    if wvar is None or line_loop is None:
        rep.undecided('R10b', sc, fn, whatb, 'weight destination or line loop not recognised')
    else:
        defs = [(d, rhs) for (d, rhs) in ex.assignments_to(fn, wvar)]
        inloop = [(d, rhs) for (d, rhs) in defs if line_loop.body is not None and line_loop.body.is_ancestor_of(d)]
        dom = [(d, rhs) for (d, rhs) in inloop if cfg.dominates(d, sc) and d is not sc]
        nondom = [(d, rhs) for (d, rhs) in inloop if not cfg.dominates(d, sc) and cfg.reaches(d, sc)
                  and not (d.line > sc.line)]
        wname = prog.vars[wvar]['name']
        uninit = [d for (d, rhs) in inloop if d.k == 'VarDecl' and rhs is None]
        # idiom: the default is assigned AFTER the scan, when the conversion count says the weight was not converted
        nconv_ = len(binds)
        post = []
        for (d, rhs) in inloop:
            if d.k == 'VarDecl' or rhs is None or not cfg.dominates(sc, d):
                continue
            # conditions between the scan and the assignment (those that also enclose the scan select the line kind)
            conds = [(c_, pol_) for (c_, pol_) in ex.ast_conditions(d)
                     if not (c_.enclosing('IfStmt') is not None and c_.enclosing('IfStmt').is_ancestor_of(sc))]
            if len(conds) != 1:
                continue
            tv = count_guard_values(fn, conds[0][0], sc, range(0, nconv_ + 1))
            if tv is None:
                continue
            tv = [bool(x) == conds[0][1] for x in tv]
            r_ = rhs.strip_all()
            val_ = r_.cv if r_.cv is not None else (r_.value if r_.k == 'FloatingLiteral' else None)
            post.append((d, tv, val_))
        if post and not [x for x in dom if x[1] is not None]:
            d, tv, val_ = post[0]
            # executed exactly when the trailing weight was not converted: for every count below the full count, not for the full count
            if all(tv[:nconv_]) and not tv[nconv_] and val_ is not None and float(val_) == 1.0:
                rep.ok('R10b', sc, fn, whatb, '%s = 1 is assigned after the scan whenever fewer than %d fields were converted' % (wname, nconv_))
            elif val_ is not None and float(val_) != 1.0:
                rep.violation('R10b', sc, fn, whatb, 'default is %s, not 1' % val_, key='R10b|%s|default-value' % fn.g)
            elif tv[nconv_]:
                rep.violation('R10b', d, fn, whatb, '`%s` is also executed when the weight was converted: the parsed weight is overwritten' % d.text(30),
                              key='R10b|%s|overwrites' % fn.g)
            elif not tv[nconv_ - 1]:
                rep.violation('R10b', d, fn, whatb, 'the default is not assigned when exactly the weight field is missing (%d of %d fields converted): an '
                              'indeterminate value is used' % (nconv_ - 1, nconv_), key='R10b|%s|uninitialised' % fn.g)
            else:
                rep.undecided('R10b', sc, fn, whatb, 'default assigned after the scan under a condition on the conversion count')
        elif uninit and not [x for x in dom if x[1] is not None]:
            rep.violation('R10b', sc, fn, whatb,
                          '%s is declared without an initialiser (line %d): on a line without weight sscanf leaves it untouched and an '
                          'indeterminate double is read and stored as the edge weight' % (wname, uninit[0].line),
                          key='R10b|%s|uninitialised' % fn.g)
        elif not dom:
            rep.violation('R10b', sc, fn, whatb,
                          '%s is not re-initialised inside the line loop before the sscanf: a line without weight keeps the '
                          'previous line\'s weight' % wname, key='R10b|%s|not-reset' % fn.g)
        else:
            # the closest dominating definition
            last = dom[0]
            for cand in dom[1:]:
                if cfg.dominates(last[0], cand[0]):
                    last = cand
            rhs = last[1]
            val = None
            if rhs is not None:
                r = rhs.strip_all()
                val = r.cv if r.cv is not None else (r.value if r.k == 'FloatingLiteral' else None)
            if val is not None and float(val) == 1.0 and not nondom:
                rep.ok('R10b', sc, fn, whatb, '%s = 1 at line %d dominates the sscanf inside the loop' % (wname, last[0].line))
            elif val is not None and float(val) != 1.0:
                rep.violation('R10b', sc, fn, whatb, 'default is %s, not 1' % val, key='R10b|%s|default-value' % fn.g)
            else:
                rep.undecided('R10b', sc, fn, whatb, 'default value not a constant or conditional re-definitions present')

    # ---------------------------------------------------------------- R10c / R10d
    add_edges = [n for n in nodes if n.k == 'CallExpr' and n.callee and n.callee['g'] == 'boost::add_edge']
    add_vertices = [n for n in nodes if n.k == 'CallExpr' and n.callee and n.callee['g'] == 'boost::add_vertex']
    mapvars = [v for v in (ex.var_of(n.c[1]) for n in nodes if n.k == 'CXXOperatorCallExpr' and n.op == '[]' and len(n.c) > 2)
               if v is not None and prog.rec_name(prog.vars[v]['ty']) in ('std::map', 'std::unordered_map')]
    mapvars = set(mapvars)
    # maps that are only used through member functions (find / at / emplace / lower_bound ...)
    for n in nodes:
        if n.k == 'CXXMemberCallExpr' and n.object_arg() is not None:
            v = ex.var_of(n.object_arg())
            if v is not None and prog.vars[v].get('kind') == 'local' and prog.rec_name(prog.vars[v]['ty']) in ('std::map', 'std::unordered_map'):
                mapvars.add(v)
    # a std::vector used as the vertex table: the container that receives the result of add_vertex
    vecvars = set()
    for n in nodes:
        if n.k == 'BinaryOperator' and n.op == '=' and any(d.k == 'CallExpr' and d.callee and d.callee['g'] == 'boost::add_vertex' for d in n.c[1].walk()):
            l = n.c[0].strip_all()
            if l.k == 'CXXOperatorCallExpr' and l.op == '[]' and len(l.c) > 2:
                v = ex.var_of(l.c[1])
                if v is not None and prog.rec_name(prog.vars[v]['ty']) == 'std::vector':
                    vecvars.add(v)
    mapvars |= vecvars
    fn._c10_vecvars = vecvars
    # vertex tables outside the two idioms (map[i] = add_vertex / vec[i] = add_vertex): a container that receives the new vertex through
    # a local or an append.  The table-dependent clauses are then undecided, not violated.
    other_tables = set()
    for av_ in add_vertices:
        holder = av_.top_transparent().parent
        lv_ = None
        if holder is not None and holder.k == 'VarDecl':
            lv_ = holder.decl_id
        elif holder is not None and holder.k == 'BinaryOperator' and holder.op == '=':
            lv_ = ex.var_of(holder.c[0])
        for n in nodes:
            if n.k == 'CXXMemberCallExpr' and n.callee and n.callee['name'] in ('push_back', 'emplace_back', 'insert', 'emplace') and n.args():
                if (lv_ is not None and any(ex.refs_var(a, lv_) for a in n.args())) or any(a.is_ancestor_of(av_) for a in n.args()):
                    ov_ = ex.var_of(n.object_arg())
                    if ov_ is not None and ov_ not in mapvars:
                        other_tables.add(ov_)
            if n.k in ('BinaryOperator', 'CXXOperatorCallExpr') and n.op == '=' and lv_ is not None:
                ops_ = n.c if n.k == 'BinaryOperator' else n.c[1:]
                l_ = ops_[0].strip_all()
                if len(ops_) == 2 and ex.var_of(ops_[1]) == lv_ and l_.k == 'CXXOperatorCallExpr' and l_.op == '[]' and len(l_.c) > 2:
                    ov_ = ex.var_of(l_.c[1])
                    if ov_ is not None and ov_ not in mapvars:
                        other_tables.add(ov_)
    if other_tables:
        rep.undecided('R10d', add_vertices[0], fn, 'vertices and edge endpoints go through the vertex table',
                      'the vertex table `%s` is filled in a way outside the recognised idioms (table[i] = add_vertex(g))' % prog.vars[sorted(other_tables)[0]]['name'])
        return

    def missing_test(leaf, mvar, keyk):
        """formula atom 'missing' if leaf tests that keyk is absent from map mvar"""
        m = ex.membership(leaf)
        if m is not None and ex.var_of(m[0]) == mvar and ex.key(m[1]) == keyk:
            f = ex.f_atom('missing')
            return ex.f_not(f) if m[2] else f
        return None

    edge_region_reads = []
    for n in nodes:
        if n.k == 'CXXOperatorCallExpr' and n.op == '[]' and len(n.c) > 2 and ex.var_of(n.c[1]) in mapvars:
            up = n.up()
            is_store = up is not None and up.k == 'BinaryOperator' and up.op == '=' and up.c[0].strip_all() is n
            if is_store:
                continue
            edge_region_reads.append(n)
    for rd in edge_region_reads:
        mvar = ex.var_of(rd.c[1])
        keyk = ex.key(rd.c[2])
        if mvar in vecvars:
            check_vector_read(rep, prog, fn, rd, mvar, p_scan)
            continue
        whatc = 'vertex_map read `%s` only happens for a declared vertex' % rd.text(40)
        g = guards_formula(cfg, rd, lambda leaf: missing_test(leaf, mvar, keyk))
        if implies(g, ex.f_not(ex.f_atom('missing'))) and 'missing' in ex.f_atoms(g):
            rep.ok('R10c', rd, fn, whatc, 'dominated by a find()/count() test whose "missing" branch leaves the function')
        else:
            rep.violation('R10c', rd, fn, whatc,
                          'operator[] on the vertex map is reachable for an undeclared vertex: it default-inserts vertex 0 '
                          'instead of raising an error', key='R10c|%s|%s' % (fn.g, prog.vars[mvar]['name']))
    for n in nodes:
        if n.k == 'CXXMemberCallExpr' and n.callee['name'] == 'at' and ex.var_of(n.object_arg()) in mapvars:
            rep.ok('R10c', n, fn, 'vertex_map.at() throws for an undeclared vertex', '')
    # reads through the iterator returned by find(key), in the reader or in a lookup lambda it defines
    from lib import par
    scopes = [fn]
    for n in nodes:
        if n.k == 'LambdaExpr':
            scopes += [f for f in (prog.fn_of_fref(op) for op in n.j.get('lambda_ops', ())) if f is not None]
    for sf in scopes:
        for n in sf.walk():
            if not (n.k == 'MemberExpr' and n.decl and n.decl.get('name') in ('second', 'first') and n.c):
                continue
            b = n.c[0].strip_all()
            itv = ex.var_of(b.c[1]) if b.k == 'CXXOperatorCallExpr' and b.op == '->' and len(b.c) > 1 else ex.var_of(b)
            if itv is None:
                continue
            d = ex.unique_def(sf, itv)
            dd = d.strip_all() if d is not None else None
            if dd is None or dd.k != 'CXXMemberCallExpr' or not dd.callee or dd.callee['name'] != 'find' or ex.var_of(dd.object_arg()) not in mapvars:
                continue
            mvar, keyk = ex.var_of(dd.object_arg()), ex.key(dd.args()[0])
            whatc = 'the iterator of vertex_map.find(%s) is only dereferenced for a declared vertex' % dd.args()[0].text(20)
            g = guards_formula(sf.cfg, n, lambda leaf: missing_test(leaf, mvar, keyk))
            if implies(g, ex.f_not(ex.f_atom('missing'))) and 'missing' in ex.f_atoms(g):
                rep.ok('R10c', n, sf, whatc, 'dominated by a test against end() whose "missing" branch leaves the function')
            else:
                rep.violation('R10c', n, sf, whatc, 'the end() iterator is dereferenced for an undeclared vertex instead of raising an error',
                              key='R10c|%s|%s|deref' % (fn.g, prog.vars[mvar]['name']))

    # R10d: the problem line declares the vertices whatever its problem word is (`p edge`, `p sp` of the `a`-line files, `p col`, ...):
    # a literal word in the format makes every other header declare no vertex at all
    if p_scan is not None:
        whatp = 'the problem line is parsed for any problem word'
        toks = p_scan[1].split()
        word = toks[1] if len(toks) > 1 and toks[0] == 'p' else (toks[0][1:] if toks and toks[0].startswith('p') and len(toks[0]) > 1 else None)
        if word is None:
            rep.undecided('R10d', p_scan[0], fn, whatp, 'format `%s` not understood' % p_scan[1])
        elif word.startswith('%') and word.rstrip('s').rstrip('0123456789').rstrip('*') == '%' and word.endswith('s'):
            rep.ok('R10d', p_scan[0], fn, whatp, 'problem word matched by `%s`' % word)
        elif word.startswith('%') and ('[' in word):
            rep.ok('R10d', p_scan[0], fn, whatp, 'problem word matched by the scanset `%s`' % word)
        elif not word.startswith('%'):
            rep.violation('R10d', p_scan[0], fn, whatp, 'the format `%s` matches the literal problem word `%s` only: `p sp n m` / `p col n m` headers declare no vertex '
                          '(every edge line then names an undeclared vertex, an edgeless file yields an empty graph)' % (p_scan[1], word),
                          key='R10d|%s|problem-word' % fn.g)
        else:
            rep.undecided('R10d', p_scan[0], fn, whatp, 'problem word conversion `%s` is outside the table' % word)
    # R10d vertices
    whatv = 'one vertex per declared node, named 1..n'
    nvar = None
    if p_scan is not None:
        pints = [vid for (c, vid, a) in p_scan[2] if c[-1] in 'dui']
        nvar = pints[0] if pints else None
    gparam_ = fn.param_ids[1] if len(fn.param_ids) > 1 else None
    delegates = [n for n in nodes if n.k in ('CallExpr', 'CXXMemberCallExpr') and n.callee and n.callee.get('in_repo') and
                 any(ex.var_of(a) == gparam_ for a in n.args()) and gparam_ is not None]
    if (not add_vertices or not [a for a in add_edges if line_loop is not None and line_loop.is_ancestor_of(a)]) and delegates:
        rep.undecided('R10d', delegates[0], fn, whatv, 'the graph is built inside the helper `%s`: outside the recognised shape of the reader' % delegates[0].callee['name'])
        return
    if not add_vertices:
        rep.violation('R10d', fn.body, fn, whatv, 'no add_vertex in the reader', key='R10d|%s|no-add-vertex' % fn.g)
    for av in add_vertices:
        loop = av.enclosing('ForStmt')
        if loop is None or nvar is None or p_scan is None:
            rep.undecided('R10d', av, fn, whatv, 'add_vertex is not inside a counting for-loop after the problem-line sscanf')
            continue
        init, cond, inc = loop.role('init'), loop.cond, loop.role('inc')
        iv = None
        lo = None
        if init is not None:
            for d in init.walk():
                if d.k == 'VarDecl' and d.c:
                    iv, lo = d.decl_id, ex.lin(d.c[0])
                elif d.k == 'BinaryOperator' and d.op == '=':
                    iv, lo = ex.var_of(d.c[0]), ex.lin(d.c[1])
        c = cond.strip_all() if cond is not None else None
        problems = []
        if iv is None or c is None or c.k != 'BinaryOperator' or c.op not in ('<', '<=') or ex.var_of(c.c[0]) != iv:
            rep.undecided('R10d', av, fn, whatv, 'loop header not in the form i = a; i <(=) b; ++i')
            continue
        hi = ex.lin(c.c[1])
        count = hi.add(lo, -1)
        if c.op == '<=':
            count = count.add(ex.Lin(const=1))
        want = ex.Lin({('v', nvar): 1})
        incs = inc.strip_all() if inc is not None else None
        okinc = incs is not None and ((incs.k == 'UnaryOperator' and incs.op == '++' and ex.var_of(incs.c[0]) == iv) or
                                      (incs.k == 'CompoundAssignOperator' and incs.op == '+=' and ex.var_of(incs.c[0]) == iv
                                       and incs.c[1].strip_all().cv == 1))
        if not okinc:
            problems.append('loop step is not +1')
        if count != want:
            problems.append('loop runs %s times, not nnodes (%s)' % (count, prog.vars[nvar]['name']))
        if not cfg.dominates(p_scan[0], av):
            problems.append('the problem-line sscanf does not dominate the vertex loop')
        # key under which the vertex is recorded
        up = av.top_transparent().parent
        named = None
        if up is not None and up.k == 'BinaryOperator' and up.op == '=':
            l = up.c[0].strip_all()
            if l.k == 'CXXOperatorCallExpr' and l.op == '[]' and ex.var_of(l.c[1]) in mapvars:
                named = ex.lin(l.c[2])
        if named is None:
            # const vertex_descriptor v = add_vertex(g);  then  map.emplace(i, v) / emplace_hint(pos, i, v) / insert({i, v}) / it->second = v
            newv = up.decl_id if up is not None and up.k == 'VarDecl' else None
            keys_ = []
            other_use = False
            if newv is not None:
                for m_ in loop.walk():
                    if m_.k == 'CXXMemberCallExpr' and m_.callee and m_.object_arg() is not None and ex.var_of(m_.object_arg()) in mapvars and \
                            any(ex.refs_var(a_, newv) for a_ in m_.args()):
                        args_ = m_.args()
                        if m_.callee['name'] in ('emplace', 'try_emplace', 'insert_or_assign') and len(args_) >= 2 and ex.var_of(args_[-1]) == newv:
                            keys_.append(args_[-2])
                        elif m_.callee['name'] == 'emplace_hint' and len(args_) == 3 and ex.var_of(args_[2]) == newv:
                            keys_.append(args_[1])
                        else:
                            other_use = True
                    if m_.k in ('BinaryOperator', 'CXXOperatorCallExpr') and m_.op == '=' and ex.var_of(m_.c[-1]) == newv:
                        l_ = (m_.c[0] if m_.k == 'BinaryOperator' else m_.c[1]).strip_all()
                        if l_.k == 'CXXOperatorCallExpr' and l_.op == '[]' and ex.var_of(l_.c[1]) in mapvars:
                            keys_.append(l_.c[2])
            lins_ = {repr(ex.lin(k_)) for k_ in keys_}
            if keys_ and len(lins_) == 1:
                named = ex.lin(keys_[0])
            elif keys_ or other_use:
                rep.undecided('R10d', av, fn, whatv, 'the new vertex reaches the vertex map through `%s`-style calls outside the idiom table' % 'insert')
                continue
        if named is None:
            problems.append('the new vertex is not recorded in the vertex map')
        else:
            first_name = named.add(ex.Lin({('v', iv): 1}), -1).add(lo)
            if not first_name.is_const() or first_name.const != 1:
                problems.append('vertices are not named 1..n (first name is %s)' % first_name)
        g = guards_formula(cfg, av, lambda leaf: (ex.f_atom(('ch',) + buffer_test(leaf, list(bufvars)[0])) if bufvars and buffer_test(leaf, list(bufvars)[0]) else None))
        if not implies(g, ex.f_atom(('ch', 0, ord('p')))):
            problems.append('add_vertex is not restricted to the problem line (buffer[0] == \'p\')')
        if body_conditional(loop, av):
            problems.append('add_vertex is conditional inside the loop')
        if problems:
            rep.violation('R10d', av, fn, whatv, '; '.join(problems), key='R10d|%s|vertices' % fn.g)
        else:
            rep.ok('R10d', av, fn, whatv, 'for i = 1..nnodes: vertex_map[i] = add_vertex')

    # R10d: every line of the file is dispatched: the line loop ends at end of file only (or with an exception for a malformed reference)
    if line_loop is not None and line_loop.body is not None:
        whatl = 'every line of the file is read: the line loop is left only at end of file'
        early = [x for x in line_loop.body.walk() if (x.k in ('BreakStmt',) and x.enclosing('ForStmt', 'WhileStmt', 'DoStmt', 'CXXForRangeStmt', 'SwitchStmt') is line_loop) or
                 x.k in ('ReturnStmt', 'GotoStmt')]
        if early:
            g_ = ex.ast_conditions(early[0])
            rep.violation('R10d', early[0], fn, whatl, '`%s` leaves the line loop%s: the lines after it (edges, further problem lines) are never read' % (
                early[0].text(30), (' under `%s`' % g_[0][0].text(40)) if g_ else ''), key='R10d|%s|early-exit' % fn.g)
        else:
            rep.ok('R10d', line_loop, fn, whatl, 'no break / return / goto inside the line loop')
    # R10d edges
    whate = 'one edge per edge line joining the two named vertices with the parsed weight'
    in_loop_edges = [a for a in add_edges if line_loop is not None and line_loop.is_ancestor_of(a)]
    if len(in_loop_edges) != 1:
        rep.violation('R10d', fn.body, fn, whate, '%d add_edge calls in the line loop (expected exactly one)' % len(in_loop_edges),
                      key='R10d|%s|edge-count' % fn.g)
    for ae in in_loop_edges:
        problems = []
        unrec = []
        if ae.enclosing('ForStmt', 'DoStmt') is not None and line_loop.is_ancestor_of(ae.enclosing('ForStmt', 'DoStmt')):
            problems.append('add_edge sits in an inner loop')
        inner = ae.enclosing('WhileStmt')
        if inner is not line_loop:
            problems.append('add_edge sits in an inner loop')
        bufv = list(bufvars)[0] if bufvars else None
        g = guards_formula(cfg, ae, lambda leaf: (ex.f_atom(('ch',) + buffer_test(leaf, bufv)) if buffer_test(leaf, bufv) else None))
        goal = ex.f_or(ex.f_atom(('ch', 0, ord('a'))), ex.f_atom(('ch', 0, ord('e'))))
        if not implies(g, goal):
            problems.append('add_edge is not restricted to \'a\'/\'e\' lines')
        # every a/e line reaches add_edge unless it throws: no other opaque guards
        opaque = [a for a in ex.f_atoms(g) if isinstance(a, tuple) and a[0] == 'opaque']
        opaque_nodes = [fn.nodes[a[1]] for a in opaque]
        bad_opaque = [o for o in opaque_nodes if not is_lookup_guard(o) and not is_range_guard(o, vecvars, ints) and not is_low_id_guard(o, ints) and not (
            line_loop.cond is not None and (line_loop.cond.is_ancestor_of(o) or line_loop.cond.strip() is o))]
        # tests of the sscanf conversion count: judged over the counts a valid edge line can produce
        nconv = len(binds)
        nmand = nconv - 1          # everything but the trailing optional weight
        still_bad = []
        for o in bad_opaque:
            tv = count_guard_values(fn, o, sc, range(nmand, nconv + 1))
            if tv is None:
                still_bad.append(o)
                continue
            if len(set(tv)) != 1:
                problems.append('`%s` distinguishes edge lines with a weight from edge lines without' % o.text(50))
                continue
            T = tv[0]
            atom = ('opaque', o.i)
            others = [a for a in ex.f_atoms(g) if a != atom]
            import itertools
            reach_valid = False
            for vals in itertools.product((False, True), repeat=len(others)):
                envv = dict(zip(others, vals))
                envv[atom] = T
                if ex.f_eval(g, envv):
                    reach_valid = True
                    break
            if not reach_valid:
                problems.append('`%s` keeps every well-formed edge line (%d or %d conversions) away from add_edge' % (o.text(50), nmand, nconv))
        bad_opaque = still_bad
        if bad_opaque:
            problems.append('add_edge additionally depends on `%s`' % bad_opaque[0].text(50))
        if not cfg.dominates(sc, ae):
            problems.append('the edge-line sscanf does not dominate add_edge')
        # endpoints: trace each argument to a vertex-map read keyed by the i-th integer of the sscanf
        for pos, want in ((0, ints[0] if len(ints) > 0 else None), (1, ints[1] if len(ints) > 1 else None)):
            src = trace_map_key(prog, fn, ae.args()[pos], mapvars)
            if src is None and any(helper_call(prog, x)[0] is not None for x in ae.args()[pos].walk()):
                unrec.append('endpoint %d of add_edge comes from the helper `%s`, which is outside the lookup idioms' % (pos + 1, ae.args()[pos].text(40)))
            elif src is None:
                problems.append('endpoint %d of add_edge is not read from the vertex map' % (pos + 1))
            elif want is None or src != ('v', want):
                problems.append('endpoint %d of add_edge is looked up with the wrong key' % (pos + 1))
        # weight store
        evar = None
        up = ae.up()
        hops = 0
        holder = ae
        while up is not None and hops < 6 and up.k not in ('VarDecl', 'CompoundStmt'):
            holder = up
            up = up.up()
            hops += 1
        if up is not None and up.k == 'VarDecl':
            evar = up.decl_id
        stored = False
        for n in nodes:
            if n.k in ('BinaryOperator', 'CXXOperatorCallExpr') and n.op == '=':
                ops = n.c if n.k == 'BinaryOperator' else n.c[1:]
                l = ops[0].strip_all()
                if l.k == 'CXXOperatorCallExpr' and l.op == '[]' and evar is not None and ex.var_of(l.c[2]) == evar:
                    if ex.var_of(ops[1]) == wvar:
                        pa, pn = cfg.pos_of(ae), cfg.pos_of(n)
                        if pa and pn and (pa[0] == pn[0] or cfg.block_postdominates(pn[0], pa[0])):
                            stored = True
            if n.k == 'CallExpr' and n.callee and n.callee['g'] == 'boost::put' and evar is not None:
                a = n.args()
                if len(a) >= 3 and ex.var_of(a[-2]) == evar and ex.var_of(a[-1]) == wvar:
                    stored = True
        # 4-argument add_edge carrying the weight
        if len(ae.args()) >= 4 and ex.refs_var(ae.args()[2], wvar):
            stored = True
        if not stored:
            problems.append('the parsed weight is not stored for the descriptor returned by add_edge')
        if problems:
            rep.violation('R10d', ae, fn, whate, '; '.join(problems), key='R10d|%s|edges' % fn.g)
        elif unrec:
            rep.undecided('R10d', ae, fn, whate, '; '.join(unrec))
        else:
            rep.ok('R10d', ae, fn, whate, 'add_edge(vertex_map[rs], vertex_map[rt]); weight[e] = rw under buffer[0] in {a,e}')


def count_guard_values(fn, cond, scan, counts):
    """truth values of `cond` for each conversion count in `counts` if cond compares the result of the sscanf call `scan` (or a
    variable holding it) with a constant; None otherwise"""
    s = cond.strip_all()
    if s.k == 'UnaryOperator' and s.op == '!':
        r = count_guard_values(fn, s.c[0], scan, counts)
        return None if r is None else [not x for x in r]
    if s.k != 'BinaryOperator' or s.op not in ('<', '<=', '>', '>=', '==', '!='):
        return None

    def is_count(e):
        e = e.strip_all()
        if e is scan or e.i == scan.i:
            return True
        v = ex.var_of(e)
        if v is not None:
            d = ex.unique_def(fn, v)
            return d is not None and d.strip_all().i == scan.i
        return False
    l, r = s.c[0], s.c[1]
    op = s.op
    if is_count(r):
        l, r = r, l
        op = {'<': '>', '>': '<', '<=': '>=', '>=': '<='}.get(op, op)
    if not is_count(l) or r.strip_all().cv is None:
        return None
    c = r.strip_all().cv
    import operator
    f = {'<': operator.lt, '<=': operator.le, '>': operator.gt, '>=': operator.ge, '==': operator.eq, '!=': operator.ne}[op]
    return [f(k, c) for k in counts]


def is_range_guard(n, vecvars, keyvars):
    """a test of a scanned vertex id against the size of the vector vertex table / against constants (judged by R10c)"""
    s = n.strip_all()
    if not vecvars:
        return False
    mentions_key = any(d.k == 'DeclRefExpr' and d.decl_id in keyvars for d in s.walk())
    other_vars = [d for d in s.walk() if d.k == 'DeclRefExpr' and d.decl is not None and d.decl.get('kind') in ('local', 'param') and
                  d.decl_id not in keyvars and d.decl_id not in vecvars]
    return mentions_key and not other_vars and s.k == 'BinaryOperator' and s.op in ('<', '<=', '>', '>=', '==', '!=')


def check_vector_read(rep, prog, fn, rd, vvar, p_scan):
    """R10c for a std::vector vertex table: abstract evaluation of the guards of `table[key]` for keys around the declared range"""
    import itertools
    cfg = fn.cfg
    whatc = 'vertex table read `%s` only happens for a declared vertex (1..n) and happens for every declared vertex' % rd.text(40)
    kv = ex.var_of(rd.c[2])
    nvar = None
    if p_scan is not None:
        pints = [vid for (c, vid, a) in p_scan[2] if c[-1] in 'dui']
        nvar = pints[0] if pints else None
    sizes = [n for n in fn.walk() if n.k == 'CXXMemberCallExpr' and n.callee and n.callee['name'] in ('resize', 'assign') and
             ex.var_of(n.object_arg()) == vvar and n.args()]
    if kv is None or nvar is None or len(sizes) != 1:
        rep.undecided('R10c', rd, fn, whatc, 'key is not a scanned variable, or the table is not sized by exactly one resize/assign')
        return

    def atomize(leaf):
        if any(d.k == 'DeclRefExpr' and d.decl_id == kv for d in leaf.walk()):
            return ex.f_atom(('rng', leaf.i))
        return None
    g = guards_formula(cfg, rd, atomize)
    atoms = ex.f_atoms(g)
    rng = [a for a in atoms if isinstance(a, tuple) and a[0] == 'rng']
    free = [a for a in atoms if a not in rng]
    if not rng:
        rep.violation('R10c', rd, fn, whatc, 'the vertex table is indexed with an unchecked vertex id: an undeclared id reads outside the '
                      'table or an unused slot instead of raising an error', key='R10c|%s|%s|unchecked' % (fn.g, prog.vars[vvar]['name']))
        return
    bad = None
    try:
        for nval in (1, 2, 5):
            def bind0(s_, x=None):
                return None
            size_val = ex.ceval(sizes[0].args()[0], lambda s_: nval if ex.var_of(s_) == nvar else None)
            for x in (-3, -1, 0, 1, nval, nval + 1, nval + 7):
                def bind(s_):
                    if s_.k == 'DeclRefExpr' and s_.decl_id == kv:
                        return x
                    if ex.var_of(s_) == nvar:
                        return nval
                    if s_.k == 'CXXMemberCallExpr' and s_.callee and s_.callee['name'] == 'size' and ex.var_of(s_.object_arg()) == vvar:
                        return size_val
                    return None
                envv = {}
                for a in rng:
                    envv[a] = bool(ex.ceval(fn.nodes[a[1]], bind))
                reachable = False
                for vals in itertools.product((False, True), repeat=len(free)):
                    e2 = dict(envv)
                    e2.update(zip(free, vals))
                    if ex.f_eval(g, e2):
                        reachable = True
                        break
                declared = 1 <= x <= nval
                if reachable and not declared:
                    bad = ('vertex id %d is accepted although only 1..%d are declared: `%s` then reads %s instead of raising an error' % (
                        x, nval, rd.text(30), 'the unused slot 0 of the table (a default descriptor, i.e. the first vertex)' if 0 <= x < size_val else 'outside the table'))
                    break
                if declared and not reachable:
                    bad = 'the declared vertex id %d (n = %d) is rejected' % (x, nval)
                    break
            if bad:
                break
    except ex.Unknown as e:
        rep.undecided('R10c', rd, fn, whatc, 'range guard could not be evaluated: %s' % e)
        return
    if bad:
        rep.violation('R10c', rd, fn, whatc, bad, key='R10c|%s|%s|range' % (fn.g, prog.vars[vvar]['name']))
    else:
        rep.ok('R10c', rd, fn, whatc, 'guards evaluated for ids -3,-1,0,1,n,n+1,n+7 and n in {1,2,5}: exactly 1..n reach the read')


def is_lookup_guard(n):
    """conditions of the form map.find(x) == map.end() (their true branch throws)"""
    s = n.strip_all()
    for d in [s] + list(s.walk()):
        if d.k == 'CXXMemberCallExpr' and d.callee and d.callee['name'] in ('find', 'count'):
            return True
        # it == map.end() where `it` was obtained from find() (one lookup per endpoint, iterator kept)
        if d.k == 'DeclRefExpr' and d.decl_id is not None and d.fn is not None:
            dd = ex.unique_def(d.fn, d.decl_id)
            dd = dd.strip_all() if dd is not None else None
            if dd is not None and dd.k == 'CXXMemberCallExpr' and dd.callee and dd.callee['name'] in ('find', 'lower_bound'):
                return True
    return False


def is_low_id_guard(n, keyvars):
    """`id < 1` / `id <= 0` / `id == 0` on a scanned vertex id: declared vertices are named 1..n, so the test only ever rejects ids that
    are not declared (the same lines the look-up rejects); it never holds for a well-formed edge line"""
    s = n.strip_all()
    if s.k == 'BinaryOperator' and s.op in ('<', '<=', '==', '>', '>='):
        l, r, op = s.c[0], s.c[1], s.op
        if ex.var_of(r) in keyvars and l.strip_all().cv is not None:
            l, r = r, l
            op = {'<': '>', '>': '<', '<=': '>=', '>=': '<=', '==': '=='}[op]
        c = r.strip_all().cv
        if ex.var_of(l) in keyvars and c is not None:
            return (op == '<' and c <= 1) or (op == '<=' and c <= 0) or (op == '==' and c == 0)
    return False


def body_conditional(loop, node):
    for a in node.ancestors():
        if a is loop:
            return False
        if a.k in ('IfStmt', 'ConditionalOperator', 'WhileStmt', 'ForStmt', 'DoStmt', 'SwitchStmt'):
            return True
    return False


def _key_through_locals(fn, node, depth=0):
    """key of a lookup argument, looking through once-defined locals that only convert the value (`const size_t k = static_cast<size_t>(rs)`)"""
    v = ex.var_of(node)
    if v is not None and depth < 4 and fn.prog.vars[v].get('kind') == 'local':
        d = ex.unique_def(fn, v)
        if d is not None and ex.var_of(d) is not None:
            return _key_through_locals(fn, d, depth + 1)
    return ex.key(node) if v is None else ('v', v)


def trace_map_key(prog, fn, arg, mapvars, depth=0):
    """follow an add_edge endpoint back to `vertex_map[key]` / `.at(key)` and return key(key expr)"""
    s = arg.strip_all()
    if depth > 6:
        return None
    if s.k == 'CXXOperatorCallExpr' and s.op == '[]' and ex.var_of(s.c[1]) in mapvars:
        return _key_through_locals(fn, s.c[2])
    if s.k == 'CXXMemberCallExpr' and s.callee['name'] == 'at' and ex.var_of(s.object_arg()) in mapvars:
        return _key_through_locals(fn, s.args()[0])
    if s.k == 'CallExpr' and s.callee and s.callee['g'] == 'boost::vertex' and s.args():
        return trace_map_key(prog, fn, s.args()[0], mapvars, depth + 1)
    if s.k == 'CXXMemberCallExpr' and s.callee['name'] in ('second',):
        return None
    if s.k == 'MemberExpr' and s.decl and s.decl['name'] == 'second' and s.c:
        # it->second of an iterator obtained from find(key)
        v = ex.var_of(s.c[0]) if s.c[0].strip_all().k != 'CXXOperatorCallExpr' else ex.var_of(s.c[0].strip_all().c[1])
        if v is not None:
            d = ex.unique_def(fn, v)
            if d is not None:
                dd = d.strip_all()
                if dd.k == 'CXXMemberCallExpr' and dd.callee['name'] == 'find' and ex.var_of(dd.object_arg()) in mapvars:
                    return _key_through_locals(fn, dd.args()[0])
    v = ex.var_of(s)
    if v is not None:
        d = ex.unique_def(fn, v)
        if d is not None:
            return trace_map_key(prog, fn, d, mapvars, depth + 1)
    # a lookup helper (local lambda or repo function) of one parameter: every return must trace to map[param]
    hf, hargs = helper_call(prog, s)
    if hf is not None and len(hf.param_ids) == 1 and len(hargs) == 1:
        keys = set()
        for r in ex.returns_of(hf):
            keys.add(trace_map_key(prog, hf, r.c[0], mapvars, depth + 1) if r.c else None)
        if keys == {('v', hf.param_ids[0])}:
            return ex.key(hargs[0])
    return None


def helper_call(prog, s):
    """(function, argument nodes) when s calls a local lambda or a repo function with a body"""
    from lib import par
    if s.k == 'CXXOperatorCallExpr' and s.op == '()' and len(s.c) >= 2:
        fs, _ = par.lambda_functions(prog, s.c[1])
        if len(fs) == 1:
            return fs[0], s.c[2:]
    if s.k in ('CallExpr', 'CXXMemberCallExpr') and s.callee and s.callee.get('in_repo') and s.callee_id is not None:
        f = prog.fn_of_fref(s.callee_id)
        if f is not None and f.body is not None:
            return f, s.args()
    return None, None


# ======================================================================================== validators
def range_loop_info(prog, fn, loop):
    """for (it = R.first; it != R.second; ++it) with R = boost::<range>(...) ; returns (range call node, iterator var)
    also accepts  for (tie(it, end) = range(...); it != end; ++it)  and range-for over make_iterator_range"""
    if loop.k == 'ForStmt':
        init, cond, inc = loop.role('init'), loop.cond, loop.role('inc')
        if init is None or cond is None or inc is None:
            return None
        it = None
        first = None
        for d in init.walk():
            if d.k == 'VarDecl' and d.c:
                it, first = d.decl_id, d.c[0]
                break
            if d.k == 'BinaryOperator' and d.op == '=':
                it, first = ex.var_of(d.c[0]), d.c[1]
                break
        c = cond.strip_all()
        if it is None or c.k not in ('CXXOperatorCallExpr', 'BinaryOperator') or c.op != '!=':
            return None
        ops = c.c[1:] if c.k == 'CXXOperatorCallExpr' else c.c
        if ex.var_of(ops[0]) != it:
            return None
        second = ops[1]
        i = inc.strip_all()
        iops = i.c[1:] if i.k == 'CXXOperatorCallExpr' else i.c
        if i.op != '++' or ex.var_of(iops[0]) != it:
            return None
        f, s = first.strip_all(), second.strip_all()
        if f.k == 'MemberExpr' and s.k == 'MemberExpr' and f.decl['name'] == 'first' and s.decl['name'] == 'second':
            rv1, rv2 = ex.var_of(f.c[0]), ex.var_of(s.c[0])
            if rv1 is not None and rv1 == rv2:
                rdef = ex.unique_def(fn, rv1)
                if rdef is not None:
                    r = rdef.strip_all()
                    if r.k == 'CallExpr' and r.callee:
                        return (r, it)
        return None
    if loop.k == 'CXXForRangeStmt':
        # for (const auto &x : boost::make_iterator_range(boost::<range>(...)))   (the loop variable is the element itself: see deref_vars)
        rng = loop.role('range')
        for d in (rng.walk() if rng is not None else ()):
            if d.k == 'CallExpr' and d.callee and d.callee['g'] == 'boost::make_iterator_range' and len(d.args()) == 1:
                inner = d.args()[0].strip_all()
                if inner.k == 'CallExpr' and inner.callee and inner.callee['g'].startswith('boost::'):
                    return (inner, None)
        return None
    return None


def deref_vars(fn, loop, itvar):
    """variables initialised from *it inside the loop body (for a range-for: the loop variable itself and copies of it)"""
    res = set()
    if loop.k == 'CXXForRangeStmt':
        lv = loop.role('loopvar')
        for d in (lv.walk() if lv is not None else ()):
            if d.k == 'VarDecl':
                res.add(d.decl_id)
        for n in loop.body.walk() if loop.body is not None else ():
            if n.k == 'VarDecl' and n.c and ex.var_of(n.c[0]) in res:
                res.add(n.decl_id)
        return res
    for n in loop.body.walk() if loop.body is not None else ():
        if n.k == 'VarDecl' and n.c:
            d = n.c[0].strip_all()
            ops = d.c[1:] if d.k == 'CXXOperatorCallExpr' else d.c
            if d.op == '*' and ops and ex.var_of(ops[0]) == itvar:
                res.add(n.decl_id)
    return res


def check_exists_function(rep, prog, fn, rule, what, range_name, predicate):
    """fn must be: loop(s) over the whole range; `return true` only under predicate; `return false` after the loops.
    `predicate(fn, loop_info, guard_formula_builder)` judges the path condition of each `return true`"""
    rets = ex.returns_of(fn)
    trues = [r for r in rets if r.c and r.c[0].strip_all().cv == 1]
    falses = [r for r in rets if r.c and r.c[0].strip_all().cv == 0]
    others = [r for r in rets if r not in trues and r not in falses]
    if others:
        # flag idiom: `bool found = false; loops { found = P; if (found) break; } return found;` - a hit must not be overwritten: after a
        # non-monotone assignment every enclosing loop has to be left (or test the flag) before the assignment can run again
        LOOPS_ = ('ForStmt', 'WhileStmt', 'DoStmt', 'CXXForRangeStmt')
        for r in others:
            fv = ex.var_of(r.c[0]) if r.c else None
            if fv is None or not (prog.type(prog.vars[fv]['ty']) or {}).get('bool'):
                continue
            for (d, rhs) in ex.assignments_to(fn, fv):
                if rhs is None or d.k == 'VarDecl':
                    continue
                rr = rhs.strip_all()
                monotone = rr.cv == 1 or (rr.k == 'BinaryOperator' and rr.op == '||' and (ex.var_of(rr.c[0]) == fv or ex.var_of(rr.c[1]) == fv))
                if monotone:
                    continue
                loops = [a for a in d.ancestors() if a.k in LOOPS_]
                child = d
                for lp in loops:
                    tested = lp.cond is not None and ex.refs_var(lp.cond, fv)
                    # a statement of this loop's body that leaves the loop when the flag is set
                    for st in (lp.body.walk() if lp.body is not None else ()):
                        if st.k == 'IfStmt' and st.cond is not None and ex.refs_var(st.cond, fv) and st.enclosing(*LOOPS_) is lp:
                            if any(x.k in ('BreakStmt', 'ReturnStmt') and (x.k == 'ReturnStmt' or x.enclosing(*LOOPS_) is lp) for x in st.then.walk()) or \
                                    st.then.k in ('BreakStmt', 'ReturnStmt'):
                                tested = True
                    if not tested:
                        rep.violation(rule, d, fn, what,
                                      'the result flag is assigned `%s` for every element and the loop at line %d neither tests the flag nor is left when it is set: '
                                      'a hit is overwritten by the elements scanned after it (only a hit in the last scanned group survives)' % (rhs.text(40), lp.line),
                                      key='%s|%s|flag-overwritten' % (rule, fn.g))
                        return None
        rep.undecided(rule, others[0], fn, what, 'returns a non-constant value: not an exists-loop')
        return None
    if not trues:
        rep.violation(rule, fn.body, fn, what, 'the validator never returns true', key='%s|%s|never-true' % (rule, fn.g))
        return None
    if not falses:
        rep.violation(rule, fn.body, fn, what, 'the validator never returns false', key='%s|%s|never-false' % (rule, fn.g))
        return None
    return trues, falses


def outer_loop_of(node, fn):
    loops = [a for a in node.ancestors() if a.k in ('ForStmt', 'WhileStmt', 'DoStmt', 'CXXForRangeStmt')]
    return loops


def full_range_loops(rep, prog, fn, rule, what, ret_true, expected):
    """the loops enclosing `return true`, outermost last; each must be a full-range loop over the expected
    boost range function with the graph parameter"""
    loops = outer_loop_of(ret_true, fn)
    infos = []
    for lp in loops:
        info = range_loop_info(prog, fn, lp)
        if info is None:
            rep.undecided(rule, lp, fn, what, 'loop is not of the form for (it = R.first; it != R.second; ++it)')
            return None
        infos.append((lp, info[0], info[1]))
    names = [i[1].callee['g'] for i in infos]
    if names != expected:
        rep.undecided(rule, ret_true, fn, what, 'loops iterate %s, expected %s' % (names, expected))
        return None
    gparam = fn.param_ids[0]
    for (lp, rc, it) in infos:
        if not any(ex.var_of(a) == gparam or ex.refs_var(a, gparam) for a in rc.args()):
            rep.violation(rule, rc, fn, what, 'range is not taken from the graph argument', key='%s|%s|range-arg' % (rule, fn.g))
            return None
        # nothing may leave the loop early except `return true` (break / goto / continue-skipping)
        for n in lp.body.walk():
            if n.k in ('BreakStmt', 'GotoStmt'):
                rep.violation(rule, n, fn, what, 'the scan is abandoned early by `%s`' % n.k, key='%s|%s|early-exit' % (rule, fn.g))
                return None
    return infos


def any_of_form(prog, fn, range_g):
    """(lambda function, element parameter, returned predicate expression, any_of call) when the validator is
    `return std::any_of(R.first, R.second, [..](const auto &e) { return P(e); });` with R = range_g(graph parameter)"""
    from lib import par
    rets = ex.returns_of(fn)
    if len(rets) != 1 or not rets[0].c:
        return None
    c = rets[0].c[0].strip_all()
    if not (c.k == 'CallExpr' and c.callee and c.callee['g'] == 'std::any_of' and len(c.args()) == 3):
        return None
    gparam = fn.param_ids[0]

    def range_end(n, which):
        s = n.strip_all()
        if s.k == 'MemberExpr' and s.decl and s.decl.get('name') == which and s.c:
            b = s.c[0].strip_all()
            v = ex.var_of(b)
            if v is not None:
                d = ex.unique_def(fn, v)
                b = d.strip_all() if d is not None else b
            return b.k == 'CallExpr' and b.callee and b.callee['g'] == range_g and b.args() and ex.var_of(b.args()[0]) == gparam
        return False
    if not (range_end(c.args()[0], 'first') and range_end(c.args()[1], 'second')):
        return None
    fs, _ln = par.lambda_functions(prog, c.args()[2])
    if len(fs) != 1 or len(fs[0].param_ids) != 1:
        return None
    lf = fs[0]
    lrets = ex.returns_of(lf)
    if len(lrets) != 1 or not lrets[0].c or lf.body is None or len([x for x in lf.body.c]) != 1:
        return None
    return lf, lf.param_ids[0], lrets[0].c[0], c


def check_has_loops(rep, prog, fn):
    rule = 'R10e'
    what = 'has_loops: true iff some edge has source == target'
    af = any_of_form(prog, fn, 'boost::edges')
    if af is not None:
        lf, ep, pexpr, call = af
        g_ = fn.param_ids[0]

        def endpoint_l(n, name):
            s = n.strip_all()
            v = ex.var_of(s)
            if v is not None and v != ep:
                d = ex.unique_def(lf, v)
                return d is not None and endpoint_l(d, name)
            return s.k == 'CallExpr' and s.callee and s.callee['g'] == 'boost::' + name and ex.var_of(s.args()[0]) == ep and ex.var_of(s.args()[1]) == g_

        def atomize_l(leaf):
            s = leaf.strip_all()
            if s.k == 'BinaryOperator' and s.op in ('==', '!='):
                a, b = s.c
                if (endpoint_l(a, 'source') and endpoint_l(b, 'target')) or (endpoint_l(a, 'target') and endpoint_l(b, 'source')):
                    f = ex.f_atom('loop')
                    return f if s.op == '==' else ex.f_not(f)
            return None
        f = ex.formula(pexpr, lambda leaf: atomize_l(leaf) or ex.f_atom(('opaque', leaf.i)))
        if f is None:
            rep.undecided(rule, call, fn, what, 'predicate of std::any_of not understood')
        else:
            judge_predicate(rep, rule, call, lf, what, f, 'loop')
            rep.ok(rule, call, fn, what + ' (false only after the whole scan)', 'std::any_of over the whole edge range')
        return
    r = check_exists_function(rep, prog, fn, rule, what, 'edges', None)
    if r is None:
        return
    trues, falses = r
    cfg = fn.cfg
    g = fn.param_ids[0]
    for rt in trues:
        infos = full_range_loops(rep, prog, fn, rule, what, rt, ['boost::edges'])
        if infos is None:
            return
        lp, rc, it = infos[0]
        evars = deref_vars(fn, lp, it)

        def is_e(n):
            v = ex.var_of(n)
            if v in evars:
                return True
            s = n.strip_all()
            ops = s.c[1:] if s.k == 'CXXOperatorCallExpr' else s.c
            return s.op == '*' and ops and ex.var_of(ops[0]) == it

        def endpoint(n, name):
            s = n.strip_all()
            v = ex.var_of(s)
            if v is not None:
                d = ex.unique_def(fn, v)
                return d is not None and endpoint(d, name)
            return s.k == 'CallExpr' and s.callee and s.callee['g'] == 'boost::' + name and is_e(s.args()[0]) and \
                ex.var_of(s.args()[1]) == g

        def atomize(leaf):
            s = leaf.strip_all()
            if s.k == 'BinaryOperator' and s.op in ('==', '!='):
                a, b = s.c
                if (endpoint(a, 'source') and endpoint(b, 'target')) or (endpoint(a, 'target') and endpoint(b, 'source')):
                    f = ex.f_atom('loop')
                    return f if s.op == '==' else ex.f_not(f)
            return None
        f = guards_formula(cfg, rt, lambda leaf: atomize(leaf) or (ex.TRUE if is_loop_cond(leaf, infos) else None))
        judge_predicate(rep, rule, rt, fn, what, f, 'loop')
    check_false_after(rep, rule, fn, what, falses)


def is_loop_cond(leaf, infos):
    for (lp, rc, it) in infos:
        if lp.cond is not None and (lp.cond.strip() is leaf or lp.cond.strip().i == leaf.i or lp.cond.is_ancestor_of(leaf)):
            return True
    return False


def judge_predicate(rep, rule, rt, fn, what, f, atom):
    atoms = ex.f_atoms(f)
    opaque = [a for a in atoms if isinstance(a, tuple) and a and a[0] == 'opaque']
    if opaque:
        n = fn.nodes.get(opaque[0][1])
        rep.undecided(rule, rt, fn, what, '`return true` depends on the unrecognised condition `%s`' % (n.text(60) if n else '?'))
        return
    if atoms == [atom]:
        if ex.f_eval(f, {atom: True}) and not ex.f_eval(f, {atom: False}):
            rep.ok(rule, rt, fn, what, '`return true` exactly under the predicate')
            return
        rep.violation(rule, rt, fn, what, 'the predicate guarding `return true` is inverted or constant',
                      key='%s|%s|predicate' % (rule, fn.g))
        return
    rep.violation(rule, rt, fn, what, '`return true` is not guarded by the expected predicate (atoms %s)' % atoms,
                  key='%s|%s|predicate' % (rule, fn.g))


def check_false_after(rep, rule, fn, what, falses):
    cfg = fn.cfg
    for rf in falses:
        if rf.enclosing('ForStmt', 'WhileStmt', 'DoStmt', 'CXXForRangeStmt') is not None:
            rep.violation(rule, rf, fn, what, '`return false` inside the scan loop ends the search at the first element',
                          key='%s|%s|false-in-loop' % (rule, fn.g))
            return
        gs = cfg.guards_of(rf)
        gs = [g for g in gs if g[0].enclosing('ForStmt', 'WhileStmt', 'DoStmt') is None or True]
    rep.ok(rule, falses[0], fn, what + ' (false only after the whole scan)', '')


def check_has_non_positive(rep, prog, fn):
    rule = 'R10e'
    what = 'has_non_positive_weights: true iff some edge has weight <= 0'
    wparam = fn.param_ids[1] if len(fn.param_ids) > 1 else None

    def judge(scope, evars, build, site):
        """scope: function whose locals are resolved; evars: variables holding the current edge; build(atomize) -> formula of the hit"""
        def is_w(n):
            s = n.strip_all()
            v = ex.var_of(s)
            if v is not None and v != wparam:
                d = ex.unique_def(scope, v)
                return d is not None and is_w(d)
            if s.k == 'CallExpr' and s.callee and s.callee['g'] in ('boost::get',) and len(s.args()) == 2:
                return ex.var_of(s.args()[0]) == wparam and (ex.var_of(s.args()[1]) in evars)
            if s.k == 'CXXOperatorCallExpr' and s.op == '[]':
                return ex.var_of(s.c[1]) == wparam and ex.var_of(s.c[2]) in evars
            return False

        thresholds = []

        def atomize(leaf):
            s = leaf.strip_all()
            if s.k == 'BinaryOperator' and s.op in ('<', '<=', '>', '>=', '==', '!='):
                a, b = s.c
                za = a.strip_all()
                zb = b.strip_all()

                def zero(z):
                    return z.cv == 0 or (z.k == 'FloatingLiteral' and z.value == 0.0) or \
                        (z.k in ('CXXTemporaryObjectExpr', 'CXXScalarValueInitExpr', 'CXXFunctionalCastExpr') and not z.c)
                op = s.op
                if is_w(a) and zero(zb):
                    pass
                elif is_w(b) and zero(za):
                    op = {'<': '>', '<=': '>=', '>': '<', '>=': '<=', '==': '==', '!=': '!='}[op]
                elif (is_w(a) and zb.fvalue is not None) or (is_w(b) and za.fvalue is not None):
                    thr = zb.fvalue if is_w(a) else za.fvalue
                    thresholds.append((leaf, thr))
                    return ex.f_atom(('threshold', leaf.i))
                else:
                    return None
                lt, eq, gt = ex.f_atom('lt'), ex.f_atom('eq'), ex.f_atom('gt')
                return {'<': lt, '<=': ex.f_or(lt, eq), '>': gt, '>=': ex.f_or(gt, eq), '==': eq,
                        '!=': ex.f_or(lt, gt)}[op]
            return None
        f = build(atomize)
        if f is None:
            rep.undecided(rule, site, fn, what, 'hit condition not understood')
            return
        atoms = ex.f_atoms(f)
        ex.f_eval(f, {a: True for a in atoms})
        if thresholds:
            leaf, thr = thresholds[0]
            rep.violation(rule, leaf, fn, what,
                          'the weight is compared with the non-zero constant %g: %s' % (
                              thr, 'strictly positive weights below it are reported as non-positive' if thr > 0 else 'a zero weight is not reported'),
                          key='%s|%s|threshold' % (rule, fn.g))
            return
        opaque = [a for a in atoms if isinstance(a, tuple)]
        if opaque:
            n = scope.nodes.get(opaque[0][1])
            rep.undecided(rule, site, fn, what, 'the hit depends on the unrecognised condition `%s`' % (n.text(60) if n else '?'))
            return
        table = {}
        for name in ('lt', 'eq', 'gt'):
            envv = {'lt': name == 'lt', 'eq': name == 'eq', 'gt': name == 'gt'}
            table[name] = ex.f_eval(f, {a: envv[a] for a in atoms}) if atoms else ex.f_eval(f, {})
        if table == {'lt': True, 'eq': True, 'gt': False}:
            rep.ok(rule, site, fn, what, 'truth table over w<0, w==0, w>0 is (T,T,F)')
        else:
            rep.violation(rule, site, fn, what, 'truth table over (w<0, w==0, w>0) is %s, required (True, True, False)' % (
                (table['lt'], table['eq'], table['gt']),), key='%s|%s|predicate' % (rule, fn.g))

    af = any_of_form(prog, fn, 'boost::edges')
    if af is not None:
        lf, ep, pexpr, call = af
        judge(lf, {ep}, lambda atomize: ex.formula(pexpr, lambda leaf: atomize(leaf) or ex.f_atom(('opaque', leaf.i))), call)
        rep.ok(rule, call, fn, what + ' (false only after the whole scan)', 'std::any_of over the whole edge range')
        return
    r = check_exists_function(rep, prog, fn, rule, what, 'edges', None)
    if r is None:
        return
    trues, falses = r
    cfg = fn.cfg
    for rt in trues:
        infos = full_range_loops(rep, prog, fn, rule, what, rt, ['boost::edges'])
        if infos is None:
            return
        lp, rc, it = infos[0]
        evars = deref_vars(fn, lp, it)
        judge(fn, evars, lambda atomize: guards_formula(cfg, rt, lambda leaf: atomize(leaf) or (ex.TRUE if is_loop_cond(leaf, infos) else None)), rt)
    check_false_after(rep, rule, fn, what, falses)


def judge_sorted_neighbours(prog, fn, rt, adj, g):
    """has_multiple_edges by per-vertex neighbour list + sort + adjacent_find: the list must be fresh for every vertex, hold every neighbour,
    be sorted before the search, and `return true` must be taken exactly when adjacent_find finds something"""
    cfg = fn.cfg
    cont = container_of_range(adj)
    if cont is None:
        return 'undecided', 'range of adjacent_find is not begin()/end() of one container'
    loops = outer_loop_of(rt, fn)
    if len(loops) != 1:
        return 'undecided', '`return true` is not directly inside the vertex loop'
    vloop = loops[0]
    vinfo = range_loop_info(prog, fn, vloop)
    if vinfo is None or vinfo[0].callee['g'] != 'boost::vertices' or not any(ex.var_of(a) == g for a in vinfo[0].args()):
        return 'undecided', 'the outer loop is not a full loop over boost::vertices(g)'
    if vloop.k == 'ForStmt' and [n for n in vloop.body.walk() if n.k in ('BreakStmt', 'GotoStmt') and n.enclosing('ForStmt', 'WhileStmt', 'DoStmt', 'CXXForRangeStmt') is vloop]:
        return 'violation', 'the vertex scan is abandoned early by a break'
    # the fill loop
    pushes = [n for n in vloop.body.walk() if n.k == 'CXXMemberCallExpr' and n.callee and n.callee['name'] in ('push_back', 'emplace_back', 'insert') and
              ex.var_of(n.object_arg()) == cont]
    if len(pushes) != 1:
        return 'undecided', '%d statements append to the neighbour list' % len(pushes)
    pu = pushes[0]
    floop = pu.enclosing('ForStmt', 'WhileStmt', 'CXXForRangeStmt')
    finfo = range_loop_info(prog, fn, floop) if floop is not None and floop is not vloop else None
    if finfo is None or finfo[0].callee['g'] not in ('boost::out_edges', 'boost::adjacent_vertices'):
        return 'undecided', 'the neighbour list is not filled by a full loop over out_edges(v, g)'
    if body_conditional(floop, pu):
        return 'violation', 'a neighbour is appended only conditionally (line %d): a duplicate among the skipped ones is missed' % pu.line
    if [n for n in floop.body.walk() if n.k in ('BreakStmt', 'ContinueStmt', 'GotoStmt', 'ReturnStmt')]:
        return 'undecided', 'the fill loop has early exits'
    val = pu.args()[-1].strip_all()
    vv = ex.var_of(val)
    if vv is not None:
        d = ex.unique_def(fn, vv)
        val = d.strip_all() if d is not None else val
    if not (val.k == 'CallExpr' and val.callee and val.callee['g'] in ('boost::opposite', 'boost::target')) and finfo[0].callee['g'] != 'boost::adjacent_vertices':
        return 'undecided', 'appended value `%s` is not the far endpoint of the edge' % pu.args()[-1].text(30)
    # freshness per vertex
    decl = [n for n in fn.walk() if n.k == 'VarDecl' and n.decl_id == cont]
    fresh = bool(decl) and vloop.body.is_ancestor_of(decl[0]) and decl[0].enclosing('ForStmt', 'WhileStmt', 'CXXForRangeStmt', 'DoStmt') is vloop
    clears = [n for n in vloop.body.walk() if n.k == 'CXXMemberCallExpr' and n.callee and n.callee['name'] == 'clear' and ex.var_of(n.object_arg()) == cont and
              n.enclosing('ForStmt', 'WhileStmt', 'CXXForRangeStmt', 'DoStmt') is vloop and not body_conditional(vloop, n)]
    first_in_floop = floop.body if floop.body is not None else floop
    if not fresh and not [c for c in clears if cfg.dominates(c, pu)]:
        return 'violation', ('the neighbour list `%s` is neither declared inside the vertex loop nor cleared at the start of every iteration: neighbours of earlier '
                             'vertices stay in it and two different vertices sharing a neighbour are reported as a multiple edge' % prog.vars[cont]['name'])
    # sort between fill and search
    sorts = [n for n in fn.walk() if n.k == 'CallExpr' and n.callee and n.callee['g'] in ('std::sort', 'std::stable_sort') and container_of_range(n) == cont and
             cfg.dominates(n, adj) and n.enclosing('ForStmt', 'WhileStmt', 'CXXForRangeStmt', 'DoStmt') is vloop]
    def top_index(n):
        x = n
        while x is not None and x.parent is not vloop.body:
            x = x.parent
        return vloop.body.c.index(x) if x is not None and x in vloop.body.c else None
    sorts = [n for n in sorts if top_index(n) is not None and top_index(floop) is not None and top_index(n) > top_index(floop)]
    if not sorts:
        return 'violation', 'the list is not sorted (after being filled) before adjacent_find: duplicates that are not adjacent are missed'
    if len(sorts[0].args()) == 3:
        cmpn = sorts[0].args()[2].strip_all()
        ct = (prog.base_type(cmpn.j.get('t')) or {}).get('canon') or ''
        if not (ct.startswith('std::less') or ct.startswith('std::greater')):
            return 'undecided', 'custom sort comparator'
    # the hit: adjacent_find(...) != end
    def atomize(leaf):
        s = leaf.strip_all()
        if s.k in ('CXXOperatorCallExpr', 'BinaryOperator') and s.op in ('==', '!='):
            ops = s.c[1:] if s.k == 'CXXOperatorCallExpr' else s.c
            for a, b in ((ops[0], ops[1]), (ops[1], ops[0])):
                aa, bb = a.strip_all(), b.strip_all()
                av = ex.var_of(aa)
                if av is not None:
                    d = ex.unique_def(fn, av)
                    aa = d.strip_all() if d is not None else aa
                if aa is adj and bb.k == 'CXXMemberCallExpr' and bb.callee and bb.callee['name'] in ('end', 'cend') and ex.var_of(bb.object_arg()) == cont:
                    f = ex.f_atom('dup')
                    return f if s.op == '!=' else ex.f_not(f)
        return None
    f = guards_formula(cfg, rt, lambda leaf: atomize(leaf) or (ex.TRUE if (vloop.cond is not None and (vloop.cond.strip() is leaf or vloop.cond.is_ancestor_of(leaf))) else None))
    atoms = ex.f_atoms(f)
    if [a for a in atoms if a != 'dup']:
        return 'undecided', '`return true` depends on a condition outside the idiom'
    if atoms == ['dup'] and ex.f_eval(f, {'dup': True}) and not ex.f_eval(f, {'dup': False}):
        return 'ok', 'per-vertex neighbour list, sorted, `return true` iff adjacent_find finds two equal consecutive neighbours'
    return 'violation', '`return true` is not taken exactly when adjacent_find reports a duplicate'


def check_has_multiple(rep, prog, fn):
    rule = 'R10e'
    what = 'has_multiple_edges: true iff some vertex sees a neighbour twice'
    r = check_exists_function(rep, prog, fn, rule, what, 'vertices', None)
    if r is None:
        return
    trues, falses = r
    cfg = fn.cfg
    g = fn.param_ids[0]
    for rt in trues:
        loops = outer_loop_of(rt, fn)
        # idiom I3: sort + adjacent_find on a per-vertex sequence
        adj = [n for n in fn.walk() if n.k == 'CallExpr' and n.callee and n.callee['g'] in ('std::adjacent_find', 'std::unique')]
        if adj:
            for a in adj:
                cont = container_of_range(a)
                sorts = [n for n in fn.walk() if n.k == 'CallExpr' and n.callee and n.callee['g'] in ('std::sort', 'std::stable_sort')
                         and container_of_range(n) == cont and cont is not None and cfg.dominates(n, a)]
                if not sorts:
                    rep.violation(rule, a, fn, what,
                                  '%s only finds *adjacent* duplicates: the sequence is not sorted before it, so two copies of a '
                                  'neighbour separated by another edge are missed' % a.callee['name'],
                                  key='%s|%s|unsorted-adjacent' % (rule, fn.g))
                    return
            verdict, detail = judge_sorted_neighbours(prog, fn, rt, adj[0], g)
            if verdict == 'ok':
                rep.ok(rule, rt, fn, what, detail)
                check_false_after(rep, rule, fn, what, falses)
            elif verdict == 'violation':
                rep.violation(rule, rt, fn, what, detail, key='%s|%s|sorted-neighbours' % (rule, fn.g))
            else:
                rep.undecided(rule, rt, fn, what, 'sort + adjacent_find idiom: ' + detail)
            return
        encl = outer_loop_of(rt, fn)
        if len(encl) == 1:
            single = range_loop_info(prog, fn, encl[0])
            if single is not None and single[0].callee['g'] == 'boost::edges':
                check_pair_set_idiom(rep, prog, fn, rule, what, rt, encl[0], single, falses)
                return
        infos = full_range_loops(rep, prog, fn, rule, what, rt, ['boost::out_edges', 'boost::vertices'])
        if infos is None:
            return
        (inner, irc, iit), (outer, orc, oit) = infos
        vvars = deref_vars(fn, outer, oit)
        evars = deref_vars(fn, inner, iit)
        # out_edges(v, g) with v the outer element
        if not (irc.args() and ex.var_of(irc.args()[0]) in vvars):
            rep.violation(rule, irc, fn, what, 'the inner range is not out_edges(<current vertex>, g)', key='%s|%s|inner-range' % (rule, fn.g))
            return

        def is_neighbor(n):
            s = n.strip_all()
            v = ex.var_of(s)
            if v is not None:
                d = ex.unique_def(fn, v)
                return d is not None and is_neighbor(d)
            if s.k == 'CallExpr' and s.callee:
                a = s.args()
                if s.callee['g'] == 'boost::opposite' and len(a) == 3:
                    return ex.var_of(a[0]) in evars and ex.var_of(a[1]) in vvars and ex.var_of(a[2]) == g
                if s.callee['g'] == 'boost::target' and len(a) == 2:
                    return ex.var_of(a[0]) in evars and ex.var_of(a[1]) == g
            return False

        setvars = {}

        def atomize(leaf):
            s = leaf.strip_all()
            # set.insert(u).second
            if s.k == 'MemberExpr' and s.decl and s.decl['name'] == 'second' and s.c:
                c = s.c[0].strip_all()
                if c.k == 'CXXMemberCallExpr' and c.callee['name'] == 'insert' and c.args() and is_neighbor(c.args()[0]):
                    sv = ex.var_of(c.object_arg())
                    if sv is not None and prog.rec_name(prog.vars[sv]['ty']) in ('std::set', 'std::unordered_set'):
                        setvars[sv] = c
                        return ex.f_not(ex.f_atom('dup'))
            # fast path: a vertex with fewer than two incident edges cannot see a neighbour twice, so skipping it changes nothing
            if s.k == 'BinaryOperator' and s.op in ('<', '<=', '==') and s.c[1].strip_all().cv is not None:
                dg = s.c[0].strip_all()
                c_ = s.c[1].strip_all().cv
                if dg.k == 'CallExpr' and dg.callee and dg.callee['g'] in ('boost::out_degree', 'boost::degree') and len(dg.args()) == 2 and \
                        ex.var_of(dg.args()[0]) in vvars and ex.var_of(dg.args()[1]) == g and \
                        ((s.op == '<' and c_ <= 2) or (s.op == '<=' and c_ <= 1) or (s.op == '==' and c_ in (0, 1))):
                    return ex.FALSE      # on every vertex that can have a duplicate the test is false
            if s.k == 'BinaryOperator' and s.op in ('==', '!=') and s.c[1].strip_all().cv in (0, 1):
                inner_f = atomize(s.c[0])
                if inner_f is not None:
                    want = s.c[1].strip_all().cv == 1
                    pos = inner_f if (s.op == '==') == want else ex.f_not(inner_f)
                    return pos
            return None
        f = guards_formula(cfg, rt, lambda leaf: atomize(leaf) or (ex.TRUE if is_loop_cond(leaf, infos) else None))
        judge_predicate(rep, rule, rt, fn, what, f, 'dup')
        for sv, call in setvars.items():
            decl = [n for n in fn.walk() if n.k == 'VarDecl' and n.decl_id == sv]
            fresh = decl and outer.body is not None and outer.body.is_ancestor_of(decl[0]) and not (
                inner.body is not None and inner.is_ancestor_of(decl[0]))
            cleared = [n for n in (outer.body.walk() if outer.body is not None else ()) if n.k == 'CXXMemberCallExpr' and
                       n.callee['name'] == 'clear' and ex.var_of(n.object_arg()) == sv and not inner.is_ancestor_of(n)]
            whatf = 'the neighbour set is fresh for every vertex'
            if fresh or cleared:
                rep.ok(rule, decl[0] if decl else call, fn, whatf, '')
            else:
                rep.violation(rule, decl[0] if decl else call, fn, whatf,
                              'the set of seen neighbours is shared between vertices: a neighbour of two different vertices is '
                              'reported as a multiple edge', key='%s|%s|shared-set' % (rule, fn.g))
    check_false_after(rep, rule, fn, what, falses)


def check_pair_set_idiom(rep, prog, fn, rule, what, rt, loop, info, falses):
    """idiom I4: one pass over edges(g) inserting the endpoint pair of every edge into one set; an undirected edge
    {u,v} may be stored as (u,v) or (v,u), so the key must be order-normalised"""
    cfg = fn.cfg
    g = fn.param_ids[0]
    infos = full_range_loops(rep, prog, fn, rule, what, rt, ['boost::edges'])
    if infos is None:
        return
    lp, rc, it = infos[0]
    evars = deref_vars(fn, lp, it)

    def endpoint_kind(n):
        s = n.strip_all()
        v = ex.var_of(s)
        if v is not None:
            defs = ex.assignments_to(fn, v)
            if len(defs) != 1 or defs[0][1] is None:
                return 'unknown'
            return endpoint_kind(defs[0][1])
        if s.k == 'CallExpr' and s.callee:
            a = s.args()
            if s.callee['g'] in ('boost::source', 'boost::target') and len(a) == 2 and ex.var_of(a[0]) in evars and \
                    ex.var_of(a[1]) == g:
                return s.callee['name']
            if s.callee['g'] in ('std::min', 'std::max') and len(a) == 2:
                ks = sorted(endpoint_kind(x) for x in a)
                if ks == ['source', 'target']:
                    return s.callee['name']
        return 'unknown'

    verdict = {}

    def atomize(leaf):
        s = leaf.strip_all()
        if s.k == 'MemberExpr' and s.decl and s.decl['name'] == 'second' and s.c:
            c = s.c[0].strip_all()
            if c.k == 'CXXMemberCallExpr' and c.callee['name'] in ('insert', 'emplace') and c.args():
                sv = ex.var_of(c.object_arg())
                if sv is None or prog.rec_name(prog.vars[sv]['ty']) not in ('std::set', 'std::unordered_set'):
                    return None
                if c.callee['name'] == 'emplace' and len(c.args()) == 2:
                    parts = c.args()
                else:
                    k = c.args()[0].strip_all()
                    if k.k == 'CallExpr' and k.callee and k.callee['g'] == 'std::minmax':
                        ks = sorted(endpoint_kind(x) for x in k.args())
                        verdict['key'] = 'normalised' if ks == ['source', 'target'] else 'unknown'
                        verdict['set'] = sv
                        return ex.f_not(ex.f_atom('dup'))
                    if k.k == 'CallExpr' and k.callee and k.callee['g'] == 'std::make_pair':
                        parts = k.args()
                    elif k.k in ex.CTOR_KINDS and len(k.c) == 2:
                        parts = k.c
                    elif k.k == 'InitListExpr' and len(k.c) == 2:
                        parts = k.c
                    else:
                        return None
                ks = [endpoint_kind(x) for x in parts]
                if ks == ['min', 'max'] or ks == ['max', 'min']:
                    verdict['key'] = 'normalised'
                elif sorted(ks) == ['source', 'target']:
                    verdict['key'] = 'raw'
                else:
                    verdict['key'] = 'unknown'
                verdict['set'] = sv
                verdict['node'] = c
                return ex.f_not(ex.f_atom('dup'))
        if s.k == 'BinaryOperator' and s.op in ('==', '!=') and s.c[1].strip_all().cv in (0, 1):
            inner_f = atomize(s.c[0])
            if inner_f is not None:
                want = s.c[1].strip_all().cv == 1
                return inner_f if (s.op == '==') == want else ex.f_not(inner_f)
        return None
    f = guards_formula(cfg, rt, lambda leaf: atomize(leaf) or (ex.TRUE if is_loop_cond(leaf, infos) else None))
    if verdict.get('key') == 'raw':
        rep.violation(rule, verdict.get('node', rt), fn, what,
                      'the key is the raw pair (source, target): an undirected edge listed once as (u,v) and once as (v,u) '
                      'gives two different keys, so that parallel edge is missed',
                      key='%s|%s|unnormalised-pair' % (rule, fn.g))
        return
    if verdict.get('key') != 'normalised':
        rep.undecided(rule, rt, fn, what, 'single pass over edges(g): key construction not in the idiom table')
        return
    decl = [n for n in fn.walk() if n.k == 'VarDecl' and n.decl_id == verdict['set']]
    if decl and lp.is_ancestor_of(decl[0]):
        rep.violation(rule, decl[0], fn, what, 'the set of seen pairs is re-created for every edge', key='%s|%s|fresh-pair-set' % (rule, fn.g))
        return
    judge_predicate(rep, rule, rt, fn, what, f, 'dup')
    check_false_after(rep, rule, fn, what, falses)


def container_of_range(call):
    """variable whose begin()/end() form the range passed to an algorithm call"""
    a = call.args()
    if len(a) < 2:
        return None
    vs = []
    for x in a[:2]:
        s = x.strip_all()
        if s.k == 'CXXMemberCallExpr' and s.callee['name'] in ('begin', 'end', 'cbegin', 'cend'):
            vs.append(ex.var_of(s.object_arg()))
        else:
            vs.append(None)
    if vs[0] is not None and vs[0] == vs[1]:
        return vs[0]
    return None


def run_on(rep, prog):
    n = 0
    for fn in prog.fns(READER):
        check_reader(rep, prog, fn)
        n += 1
    for fn in prog.fns('parmcb::has_loops'):
        check_has_loops(rep, prog, fn)
    for fn in prog.fns('parmcb::has_multiple_edges'):
        check_has_multiple(rep, prog, fn)
    for fn in prog.fns('parmcb::has_non_positive_weights'):
        check_has_non_positive(rep, prog, fn)
    return n


def run(rep, tier):
    rep.rule('R10a', 'a NUL written into the fgets buffer only replaces a line terminator', floor=1)
    rep.rule('R10b', 'optional weight defaults to 1 on every line', floor=1)
    rep.rule('R10f', 'line buffer of at least 1024 bytes', floor=1)
    rep.rule('R10c', 'undeclared vertex raises an error before the vertex map is read', floor=2)
    rep.rule('R10d', 'one vertex per declared node named 1..n; one edge per edge line with its weight', floor=2)
    rep.rule('R10e', 'validators are exists-loops over the whole range with the right predicate', floor=6)
    rep.rule('R10s', '%s conversions cannot overflow', floor=0)
    tus = [env.witness_tu()]
    if tier == 'thorough':
        tus += env.demo_tus()
    progs = env.extract(tus, 'full')
    rep.saw_programs(progs.values())
    readers = 0
    for tu, prog in progs.items():
        readers += run_on(rep, prog)
    if readers == 0:
        rep.analysis_broken('parmcb::read_dimacs_from_file not instantiated (anchor vanished)')
    # the graph types the demo programs hand to the reader (one edge per line needs an out-edge list that keeps parallel edges)
    rep.rule('R11f', 'the graph types the demo programs read into keep parallel edges (add_edge succeeds for every `e` line)', floor=4)
    from . import c11, common
    for tu, dprog in env.extract(env.demo_tus(), 'full').items():
        for m in common.mains(dprog):
            c11.check_graph_type(rep, dprog, common.driver_body(dprog, m))
    pos = os.path.join(env.WITNESS, 'positive', 'c10_reader.cc')
    pp = env.extract([pos], 'full')[pos]
    prep = type(rep)(rep.prop, rep.tier)
    run_on(prep, pp)
    for r in ('R10a', 'R10b', 'R10c', 'R10d', 'R10e', 'R10f'):
        rep.positive(r, 'witness/positive/c10_reader.cc',
                     any(i.status == 'violation' and i.rule == r for i in prep.instances.values()))
    rep.assume('lines are shorter than the 1024-byte buffer (property quantifier); sscanf/fgets/strcspn behave as in ISO C')
    rep.assume('has_multiple_edges is judged on loop-free multigraphs (property quantifier): opposite(e,v,g) never equals v')
