"""A3 applied to minimum selection: the min-update contract (R02c/R03c) and reduction joins (R03b, R04 min-op).

A candidate/accumulator is a (cycle, weight, found) triple: std::tuple<set, W, bool> (found = std::get<2>, weight =
std::get<1>) or a struct with members `exists`/`weight`.  All decisions are truth tables over named atoms.
"""
import itertools

from lib import ex
from .c10 import guards_formula


def tuple_index(n):
    """i if n is std::get<i>(x), returning (i, x node)"""
    s = ex.subst(n)
    if s.k == 'CallExpr' and s.callee and s.callee['g'] == 'std::get' and s.args():
        ta = s.callee.get('targs') or []
        if ta and isinstance(ta[0], dict) and 'int' in ta[0]:
            return ta[0]['int'], s.args()[0]
    return None, None


def found_of(n):
    """var id X if n is found(X)"""
    i, x = tuple_index(n)
    if i == 2:
        return ex.var_of(ex.subst(x))
    s = ex.subst(n)
    if s.k == 'MemberExpr' and s.decl and s.decl.get('name') in ('exists', 'found', 'valid') and s.c:
        return ex.var_of(s.c[0])
    # a bool local defined once as found(X)
    if s.k == 'DeclRefExpr' and s.decl_id is not None and s.fn is not None and _depth[0] < 2:
        v = s.prog.vars[s.decl_id]
        if v.get('kind') == 'local' and (s.prog.base_type(v.get('ty')) or {}).get('bool'):
            d = ex.unique_def(s.fn, s.decl_id)
            if d is not None:
                _depth[0] += 1
                try:
                    fv_ = found_of(d)
                finally:
                    _depth[0] -= 1
                if fv_ is not None:
                    w_ = ex.snapshot_stale(s.fn, s.decl_id, s)
                    if w_ is not None:
                        # the flag was copied before the loop that keeps assigning X: at this use it no longer is found(X)
                        STALE.append((s, w_, fv_))
                        return None
                return fv_
    return None


STALE = []


def weight_of(n):
    i, x = tuple_index(n)
    if i == 1:
        return ex.var_of(ex.subst(x))
    s = ex.subst(n)
    if s.k == 'MemberExpr' and s.decl and s.decl.get('name') in ('weight', '_weight') and s.c:
        return ex.var_of(s.c[0])
    if s.k == 'CXXMemberCallExpr' and s.callee and s.callee['name'] == 'weight':
        return ex.var_of(s.object_arg())
    # a local `const W w = weight(X) + extra;` that is stored back with `weight(X) = w` stands for the weight of X
    if s.k == 'DeclRefExpr' and s.decl_id is not None and s.fn is not None and _depth[0] < 2:
        v = s.prog.vars[s.decl_id]
        if v.get('kind') == 'local':
            d = ex.unique_def(s.fn, s.decl_id)
            dd = d.strip_all() if d is not None else None
            if dd is not None and dd.k not in ('BinaryOperator', 'CXXOperatorCallExpr') and v.get('constq'):
                # const W w = weight(X);
                _depth[0] += 1
                try:
                    r_ = weight_of(dd)
                finally:
                    _depth[0] -= 1
                if r_ is not None:
                    return r_
            if dd is not None and dd.k == 'CallExpr' and v.get('constq'):
                pass
            if dd is not None and dd.k in ('BinaryOperator', 'CXXOperatorCallExpr') and dd.op == '+':
                ops = dd.c if dd.k == 'BinaryOperator' else dd.c[1:]
                _depth[0] += 1
                try:
                    xs = [weight_of(o) for o in ops]
                finally:
                    _depth[0] -= 1
                xs = [x for x in xs if x is not None]
                if len(xs) == 1:
                    for m in s.fn.walk():
                        if m.k in ('BinaryOperator', 'CXXOperatorCallExpr') and m.op == '=':
                            mo = m.c if m.k == 'BinaryOperator' else m.c[1:]
                            _depth[0] += 1
                            try:
                                tgt = weight_of(mo[0]) if len(mo) == 2 else None
                            finally:
                                _depth[0] -= 1
                            if tgt == xs[0] and ex.var_of(mo[1]) == s.decl_id:
                                return xs[0]
    return None


_depth = [0]


def less_of(n):
    """(X, Y) if n is less(weight(X), weight(Y))"""
    s = n.strip_all()
    if s.k == 'CXXOperatorCallExpr' and s.op == '()' and s.callee and s.callee['g'] in ('std::less::operator()',) and len(s.c) == 4:
        a, b = weight_of(s.c[2]), weight_of(s.c[3])
        if a is not None and b is not None:
            return (a, b)
    if s.k == 'CXXOperatorCallExpr' and s.op == '()' and s.callee and s.callee['g'] in ('std::greater::operator()',) and len(s.c) == 4:
        a, b = weight_of(s.c[2]), weight_of(s.c[3])
        if a is not None and b is not None:
            return (b, a)
    if s.k == 'BinaryOperator' and s.op in ('<', '>'):
        a, b = weight_of(s.c[0]), weight_of(s.c[1])
        if a is not None and b is not None:
            return (a, b) if s.op == '<' else (b, a)
    if s.k == 'CXXOperatorCallExpr' and s.op in ('<', '>') and len(s.c) == 3:
        a, b = weight_of(s.c[1]), weight_of(s.c[2])
        if a is not None and b is not None:
            return (a, b) if s.op == '<' else (b, a)
    return None


def leq_of(n):
    s = n.strip_all()
    if s.k == 'BinaryOperator' and s.op in ('<=', '>='):
        a, b = weight_of(s.c[0]), weight_of(s.c[1])
        if a is not None and b is not None:
            return (a, b) if s.op == '<=' else (b, a)
    return None


def refs_through_callee(leaf, var):
    """does the leaf call a local lambda / repo function whose body mentions `var` (a capture)?"""
    from lib import par
    for n in leaf.walk():
        fs = []
        if n.k == 'CXXOperatorCallExpr' and n.op == '()' and len(n.c) >= 2:
            fs, _ = par.lambda_functions(n.prog, n.c[1])
        for f in fs:
            if f.body is not None and ex.refs_var(f.body, var):
                return True
    return False


def min_update_contract(fn, assign, acc, x):
    """judge `acc = x` (node assign).  Returns (verdict, detail)."""
    cfg = fn.cfg

    def atomize(leaf):
        fv = found_of(leaf)
        if fv == acc:
            return ex.f_atom('fa')
        if fv == x:
            return ex.f_atom('fx')
        l = less_of(leaf)
        if l == (x, acc):
            return ex.f_atom('lt')
        if l == (acc, x):
            return ex.f_atom('gt')
        le = leq_of(leaf)
        if le == (x, acc):
            return ex.f_not(ex.f_atom('gt'))
        if le == (acc, x):
            return ex.f_not(ex.f_atom('lt'))
        if ex.refs_var(leaf, acc) or refs_through_callee(leaf, acc):
            return ex.f_atom(('acc-opaque', leaf.i))
        return None
    assigns = assign if isinstance(assign, (list, tuple)) else [assign]
    pc = ex.FALSE
    del STALE[:]
    for a_ in assigns:
        pc = ex.f_or(pc, guards_formula(cfg, a_, atomize))
    atoms = ex.f_atoms(pc)
    stale = [t_ for t_ in STALE if t_[2] == acc]
    if stale:
        use, wr, _x = stale[0]
        return 'violation', ('the update condition tests `%s`, a copy of the accumulator\'s found flag taken before the loop (the accumulator is assigned at line %d inside it): '
                             'once a candidate has been accepted the copy still says "nothing found", so every later found candidate replaces the running best '
                             'whatever its weight' % (use.text(20), wr.line))
    bad = [a for a in atoms if isinstance(a, tuple) and a[0] == 'acc-opaque']
    if bad:
        n = fn.nodes.get(bad[0][1])
        return 'undecided', 'condition `%s` mentions the accumulator in an unrecognised way' % (n.text(60) if n else '?')
    others = [a for a in atoms if a not in ('fa', 'lt', 'gt')]
    saw_update = False
    for vals in itertools.product((False, True), repeat=len(others)):
        envo = dict(zip(others, vals))
        # h(fa, lt, gt) over consistent orderings
        table = {}
        for fa in (False, True):
            for order in ('lt', 'eq', 'gt'):
                e = dict(envo)
                e.update({'fa': fa, 'lt': order == 'lt', 'gt': order == 'gt'})
                e = {k: v for k, v in e.items() if k in atoms}
                table[(fa, order)] = ex.f_eval(pc, e)
        if not any(table.values()):
            continue
        saw_update = True
        if 'fx' in envo and not envo['fx']:
            return 'violation', 'the accumulator can be overwritten by a candidate whose found flag is false'
        if 'fx' not in atoms:
            # an unrecognised condition that looks at the candidate may be the validity test in another spelling
            for a_ in atoms:
                if isinstance(a_, tuple) and a_ and a_[0] == 'opaque':
                    on = fn.nodes.get(a_[1])
                    hides = on is not None and ex.membership(on) is None and any(
                        (y.k in ('CallExpr', 'CXXMemberCallExpr') and y.callee and y.callee.get('in_repo')) or
                        (y.k == 'CXXOperatorCallExpr' and y.op == '()' and y.callee and (y.callee.get('lambda_op') or y.callee.get('in_repo')))
                        for y in on.walk())
                    if hides and (ex.refs_var(on, x) or refs_through_callee(on, x)):
                        return 'undecided', 'condition `%s` looks at the candidate in an unrecognised way (it may be the found test)' % on.text(50)
            return 'violation', 'the update is not conditioned on the candidate having been found'
        strict = {(False, 'lt'): True, (False, 'eq'): True, (False, 'gt'): True,
                  (True, 'lt'): True, (True, 'eq'): False, (True, 'gt'): False}
        ties = dict(strict)
        ties[(True, 'eq')] = True
        if table == strict:
            continue
        if table == ties:
            continue
        # diagnose
        if not table[(False, 'gt')] or not table[(False, 'eq')] or not table[(False, 'lt')]:
            return 'violation', 'a found candidate does not replace a not-yet-found accumulator (the `!found(acc)` disjunct is missing): ' \
                                'the first candidate is lost unless it happens to be lighter than the initial weight'
        if table[(True, 'gt')]:
            return 'violation', 'a heavier candidate replaces a lighter accumulator (comparison reversed or missing)'
        if not table[(True, 'lt')]:
            return 'violation', 'a lighter candidate does not replace the accumulator'
        return 'violation', 'update condition is not V(x) and (!found(acc) or less(w(x), w(acc)))'
    if not saw_update:
        return 'violation', 'the update can never happen'
    return 'ok', 'path condition is V(x) & (!found(acc) | less(w(x), w(acc)))'


def returned_param(expr, params):
    v = ex.var_of(expr)
    if v in params:
        return params.index(v)
    return None


def _only_returned_call(fn):
    if fn.body is None:
        return None
    stmts = list(fn.body.c) if fn.body.k == 'CompoundStmt' else [fn.body]
    if len(stmts) == 1 and stmts[0].k == 'ReturnStmt' and stmts[0].c:
        r = stmts[0].c[0].strip_all()
        if r.k in ('CallExpr', 'CXXMemberCallExpr'):
            return r
    return None


def join_table(fn):
    """for a binary join(c1, c2): verdict on the min-join specification"""
    if len(fn.param_ids) != 2:
        return 'undecided', 'join does not take two operands'
    p1, p2 = fn.param_ids
    cfg = fn.cfg
    # a join that only forwards its two operands (in order) to another repo function is judged through that function
    call = _only_returned_call(fn)
    if call is not None and _depth[0] < 3 and call.k in ('CallExpr', 'CXXMemberCallExpr') and call.callee and call.callee.get('in_repo'):
        target = fn.prog.fn_of_fref(call.callee_id)
        a = call.args()
        if target is not None and len(a) == 2 and [ex.var_of(a[0]), ex.var_of(a[1])] == [p1, p2]:
            _depth[0] += 1
            try:
                return join_table(target)
            finally:
                _depth[0] -= 1

    def atomize(leaf):
        fv = found_of(leaf)
        if fv == p1:
            return ex.f_atom('f1')
        if fv == p2:
            return ex.f_atom('f2')
        l = less_of(leaf)
        if l == (p2, p1):
            return ex.f_atom('lt21')
        if l == (p1, p2):
            return ex.f_atom('lt12')
        le = leq_of(leaf)
        if le == (p2, p1):
            return ex.f_not(ex.f_atom('lt12'))
        if le == (p1, p2):
            return ex.f_not(ex.f_atom('lt21'))
        return None
    outcomes = []   # (formula, returned param index)
    fresh = []

    def add(expr, cond):
        s = expr.strip_all()
        if s.k == 'ConditionalOperator':
            c = ex.formula(s.cond, lambda leaf: atomize(leaf) or ex.f_atom(('opaque', leaf.i)))
            if c is None:
                outcomes.append((cond, None))
                return
            add(s.then, ex.f_and(cond, c))
            add(s.els, ex.f_and(cond, ex.f_not(c)))
            return
        rp = returned_param(s, [p1, p2])
        if rp is None and (s.k in ex.CTOR_KINDS + ('InitListExpr', 'CXXTemporaryObjectExpr') or
                           (s.k == 'CallExpr' and s.callee and s.callee['name'] in ('make_tuple', 'make_pair'))) and \
                not (len(s.c) == 1 and returned_param(s.c[0], [p1, p2]) is not None):
            fresh.append(s)
        if rp is None and len(s.c) == 1 and s.k in ex.CTOR_KINDS:
            rp = returned_param(s.c[0], [p1, p2])
        outcomes.append((cond, rp))
    for r in ex.returns_of(fn):
        if not r.c:
            continue
        pc = guards_formula(cfg, r, atomize)
        add(r.c[0], pc)
    if not outcomes:
        return 'undecided', 'no return'
    atoms = []
    for (f, _p) in outcomes:
        for a in ex.f_atoms(f):
            if a not in atoms:
                atoms.append(a)
    if any(isinstance(a, tuple) for a in atoms):
        return 'undecided', 'join branches on a condition that is not over found flags / weights'
    if fresh:
        return 'violation', 'join returns a freshly built value (`%s`) instead of one of its two operands' % fresh[0].text(40)
    if any(p is None for (_f, p) in outcomes):
        return 'undecided', 'join returns something else than one of its two operands (value not understood)'
    right_biased = False
    for f1 in (False, True):
        for f2 in (False, True):
            for order in ('lt21', 'eq', 'lt12'):
                e = {'f1': f1, 'f2': f2, 'lt21': order == 'lt21', 'lt12': order == 'lt12'}
                e = {k: v for k, v in e.items() if k in atoms}
                hits = [p for (f, p) in outcomes if ex.f_eval(f, e)]
                if len(set(hits)) != 1:
                    return 'undecided', 'join is not a function of (f1, f2, order) at %s' % e
                got = hits[0]
                if f1 and not f2:
                    want = {0}
                elif f2 and not f1:
                    want = {1}
                elif not f1 and not f2:
                    want = {0, 1}
                elif order == 'lt21':
                    want = {1}
                elif order == 'lt12':
                    want = {0}
                else:
                    want = {0, 1}
                    if got == 1:
                        right_biased = True
                if got not in want:
                    which = 'c%d' % (got + 1)
                    return 'violation', 'join(c1, c2) returns %s when found=(%s,%s) and %s' % (
                        which, f1, f2, {'lt21': 'w(c2) < w(c1)', 'lt12': 'w(c1) < w(c2)', 'eq': 'the weights tie'}[order])
    return 'ok', 'left-biased minimum' if not right_biased else 'minimum (right operand wins ties)'
