"""C20 - the concurrency knob actually limits TBB parallelism.

R20a  every tbb::global_control / task_scheduler_init created (transitively) by
      parmcb::set_global_tbb_concurrency outlives the call and is re-created on every call:
      accepted = `new` result stored by reset()/assignment/emplace into a static-storage owner on
      every path, or an owner returned to the caller (then R20b requires the demos to keep it).
R20b  in every demo main that declares a "cores" option the knob is called, every *_tbb entry point
      call is CFG-reachable from the knob call and not vice versa, and the knob call's control
      dependence *relative to* the *_tbb calls* consists only of option atoms count("cores") /
      ["parallel"] with positive polarity (A2).
"""
import os
import re

from lib import env, ex
from . import common

TITLE = 'C20: storage duration / re-creation of the TBB control object; relative control dependence of the knob call in the demos.'

CONTROL_RECS = re.compile(r'^(tbb|oneapi::tbb)::.*(global_control|task_scheduler_init)$')
TBB_ENTRY = re.compile(r'^parmcb::(approx_)?mcb_sva_\w+_tbb$')


def is_control_type(prog, tyidx_or_dict):
    t = prog.base_type(tyidx_or_dict)
    return bool(t and CONTROL_RECS.match(t.get('rec', '') or ''))


def owner_pointee_is_control(prog, t):
    """unique_ptr<global_control> / shared_ptr / optional / raw pointer"""
    bt = prog.base_type(t)
    if not bt:
        return False
    if bt.get('ptr'):
        return is_control_type(prog, bt.get('pointee'))
    for a in bt.get('targs', []) or []:
        if isinstance(a, int) and is_control_type(prog, a):
            return True
    return False


def r20a(rep, prog):
    knobs = prog.fns(common.KNOB)
    if not knobs:
        return 0
    count = 0
    prog._knob_internal = False
    for d in prog.header_decls:
        if d['kind'] == 'function' and d['q'] == common.KNOB and not d['external']:
            prog._knob_internal = True
    # the knob is one function with one owner: a function template has one static owner per instantiation, so calls with different argument
    # types do not release each other's control object and TBB applies the minimum of the live limits
    for knob in knobs:
        if knob.fref.get('targs'):
            rep.violation('R20a', knob.body or knob, knob, 'the knob has a single owner of the control object for the whole program',
                          '%s is a function template: every instantiation (int, unsigned, std::size_t ...) has its own function-local static owner, a call with another '
                          'argument type does not replace the control object installed before and the smaller limit stays in force' % common.KNOB,
                          key='R20a|%s|template-knob' % knob.g)
    # who may call the knob: the driver programs only.  A library algorithm that sets the global limit itself overrides what the caller asked for,
    # for the rest of the process
    for f_ in prog.functions:
        if f_.implicit or f_.body is None or not f_.file.startswith(env.REPO + '/include') or f_.g == common.KNOB:
            continue
        for c_ in f_.walk():
            if ex.is_call(c_, common.KNOB):
                count += 1
                g_ = ex.ast_conditions(c_)
                rep.violation('R20a', c_, f_, 'the concurrency limit is set by the caller only (no library function calls the knob)',
                              '%s calls set_global_tbb_concurrency(%s)%s: the limit requested by the caller is replaced for the rest of the process' % (
                                  f_.g, c_.args()[0].text(20) if c_.args() else '', (' when `%s`' % g_[0][0].text(30)) if g_ else ''),
                              key='R20a|%s|library-call' % f_.g)
    for knob in knobs:
        fns = ex.reachable_functions(prog, [knob])
        for fn in fns:
            cfg = fn.cfg
            for n in fn.walk():
                # (1) variables of the control type itself
                if n.k == 'VarDecl' and is_control_type(prog, n.j.get('t')):
                    count += 1
                    kind = n.decl['kind']
                    what = 'control object %s outlives the call and is re-created per call' % n.decl['name']
                    if kind == 'local':
                        rep.violation('R20a', n, knob, what,
                                      'automatic storage: the limit ends when %s returns' % fn.g,
                                      key='R20a|%s|local-control' % fn.g)
                    elif kind in ('static_local', 'global', 'static_member'):
                        rep.violation('R20a', n, knob, what,
                                      'static control object is initialised once: a second call does not change the limit',
                                      key='R20a|%s|static-once' % fn.g)
                    else:
                        rep.undecided('R20a', n, knob, what, 'storage kind %s' % kind)
                # (2) heap allocations of the control type
                if n.k == 'CXXNewExpr' and is_control_type(prog, n.j.get('alloc_ty')):
                    count += 1
                    what = 'heap control object is stored in an owner that outlives the call, on every path'
                    verdict, detail = classify_new(prog, fn, n)
                    if verdict == 'ok':
                        rep.ok('R20a', n, knob, what, detail)
                    elif verdict == 'violation':
                        rep.violation('R20a', n, knob, what, detail, key='R20a|%s|new' % fn.g)
                    else:
                        rep.undecided('R20a', n, knob, what, detail)
                # (3) temporaries of the control type (die at the end of the full expression)
                if n.k in ('CXXTemporaryObjectExpr', 'CXXConstructExpr') and is_control_type(prog, n.j.get('t')):
                    up = n.up()
                    if up is not None and up.k in ('VarDecl', 'CXXNewExpr'):
                        continue
                    holder = None
                    for a in n.ancestors():
                        if a.k in ('CallExpr', 'CXXMemberCallExpr') and a.callee and a.callee['name'] in (
                                'make_unique', 'make_shared', 'emplace'):
                            holder = a
                            break
                    if holder is not None:
                        continue
                    count += 1
                    rep.violation('R20a', n, knob, 'control object outlives the call',
                                  'temporary control object: destroyed at the end of the full expression',
                                  key='R20a|%s|temporary' % fn.g)
                # (4) make_unique<global_control>(...) / emplace into an optional
                if n.k in ('CallExpr', 'CXXMemberCallExpr') and n.callee and n.callee['name'] in (
                        'make_unique', 'make_shared', 'emplace') and owner_pointee_is_control(prog, n.j.get('t') if n.callee['name'] != 'emplace' else (n.object_arg().j.get('t') if n.object_arg() is not None else None)):
                    count += 1
                    what = 'control object created by %s is stored in an owner that outlives the call, on every path' % n.callee['name']
                    verdict, detail = classify_new(prog, fn, n)
                    if verdict == 'ok':
                        rep.ok('R20a', n, knob, what, detail)
                    elif verdict == 'violation':
                        rep.violation('R20a', n, knob, what, detail, key='R20a|%s|%s' % (fn.g, n.callee['name']))
                    else:
                        rep.undecided('R20a', n, knob, what, detail)
    return count


def owner_of_expr(prog, fn, expr):
    """the variable an owner expression denotes: a plain variable, or the static / global a repo accessor returns by reference"""
    v = ex.var_of(expr)
    if v is not None:
        return v
    s = expr.strip_all()
    if s.k in ('CallExpr', 'CXXMemberCallExpr') and s.callee and s.callee.get('in_repo') and s.callee_id is not None:
        rt = prog.type(s.callee.get('ret')) or {}
        hf = prog.fn_of_fref(s.callee_id)
        if rt.get('ref') and hf is not None and hf.body is not None:
            vs = set(ex.var_of(r.c[0]) if r.c else None for r in ex.returns_of(hf))
            if len(vs) == 1 and None not in vs:
                v = list(vs)[0]
                if prog.vars[v]['kind'] in ('static_local', 'global', 'static_member'):
                    return v
    return None


def moved_on(prog, fn, local):
    """(statement, new owner variable) pairs where the local smart pointer hands its object over: X = std::move(local), X.swap(local),
    local.swap(X), X.reset(local.release())"""
    out = []
    for n in fn.walk():
        if n.k == 'CXXOperatorCallExpr' and n.op == '=' and len(n.c) >= 3:
            r = n.c[2].strip_all()
            if r.k == 'CallExpr' and r.callee and r.callee['g'] in ('std::move', 'std::forward') and r.args() and ex.var_of(r.args()[0]) == local:
                out.append((n, owner_of_expr(prog, fn, n.c[1])))
        if n.k == 'CXXMemberCallExpr' and n.callee and n.callee['name'] == 'swap' and n.args():
            if ex.var_of(n.args()[0]) == local:
                out.append((n, owner_of_expr(prog, fn, n.object_arg())))
            elif ex.var_of(n.object_arg()) == local:
                out.append((n, owner_of_expr(prog, fn, n.args()[0])))
        if n.k == 'CallExpr' and n.callee and n.callee['g'] == 'std::swap' and len(n.args()) == 2:
            a, b = n.args()
            if ex.var_of(a) == local:
                out.append((n, owner_of_expr(prog, fn, b)))
            elif ex.var_of(b) == local:
                out.append((n, owner_of_expr(prog, fn, a)))
        if n.k == 'CXXMemberCallExpr' and n.callee and n.callee['name'] == 'reset' and n.args():
            r = n.args()[0].strip_all()
            if r.k == 'CXXMemberCallExpr' and r.callee and r.callee['name'] == 'release' and ex.var_of(r.object_arg()) == local:
                out.append((n, owner_of_expr(prog, fn, n.object_arg())))
    return out


def classify_new(prog, fn, n):
    """where does the freshly created control object go?"""
    cfg = fn.cfg
    cur = n
    up = n.up()
    # emplace on an owner: the object argument is the owner
    if n.k == 'CXXMemberCallExpr' and n.callee['name'] == 'emplace':
        owner = ex.var_of(n.object_arg())
        return judge_owner(prog, fn, n, owner)
    while up is not None and up.k in ('CXXConstructExpr', 'CXXFunctionalCastExpr', 'CXXTemporaryObjectExpr') and \
            owner_pointee_is_control(prog, up.j.get('t')):
        cur = up
        up = up.up()
    if up is None:
        return 'undecided', 'no consumer'
    if up.k == 'CXXMemberCallExpr' and up.callee and up.callee['name'] == 'reset':
        owner = owner_of_expr(prog, fn, up.object_arg())
        return judge_owner(prog, fn, up, owner)
    if up.k == 'CXXOperatorCallExpr' and up.op == '=' and len(up.c) >= 3 and up.c[2].is_ancestor_of(cur) | (up.c[2] is cur):
        owner = owner_of_expr(prog, fn, up.c[1])
        return judge_owner(prog, fn, up, owner)
    if up.k == 'BinaryOperator' and up.op == '=':
        owner = ex.var_of(up.c[0])
        return judge_owner(prog, fn, up, owner)
    if up.k == 'VarDecl':
        v = up.decl
        if v['kind'] == 'local':
            # local owner: ok only if it is returned
            for r in ex.returns_of(fn):
                if r.c and ex.var_of(r.c[0]) == up.decl_id:
                    return 'ok', 'owner %s is returned to the caller' % v['name']
            mv = moved_on(prog, fn, up.decl_id)
            if mv:
                return judge_owner(prog, fn, mv[0][0], mv[0][1])
            return 'violation', 'owner %s is a local: destroyed when %s returns' % (v['name'], fn.g)
        if v['kind'] in ('static_local', 'global', 'static_member'):
            return 'violation', 'static owner %s is initialised once: a second call does not change the limit' % v['name']
    if up.k == 'ReturnStmt':
        return 'ok', 'owner is returned to the caller'
    return 'undecided', 'consumer %s not in the idiom table' % up.k


_moving = [0]


def judge_owner(prog, fn, stmt, owner):
    if owner is None:
        return 'undecided', 'owner expression is not a plain variable'
    v = prog.vars[owner]
    if v.get('tls') and v['kind'] in ('static_local', 'global', 'static_member'):
        return 'violation', ('owner %s is thread_local: every thread has its own owner, so a later call made from another thread does not '
                             'release the control object created here (TBB then applies the minimum of the live limits), and the limit '
                             'ends when the calling thread exits' % v['name'])
    if v['kind'] == 'local':
        for r in ex.returns_of(fn):
            if r.c and ex.var_of(r.c[0]) == owner:
                return 'ok', 'local owner %s is returned to the caller' % v['name']
        mv = moved_on(prog, fn, owner)
        if mv and not _moving[0]:
            _moving[0] += 1
            try:
                return judge_owner(prog, fn, mv[0][0], mv[0][1])
            finally:
                _moving[0] -= 1
        return 'violation', 'owner %s is a local of %s: the control object dies at return' % (v['name'], fn.g)
    if v['kind'] == 'param':
        bt = prog.type(v['ty'])
        if bt and bt.get('ref') and not bt.get('const'):
            return 'ok', 'owner is an out-parameter of the caller'
        return 'violation', 'owner %s is a by-value parameter' % v['name']
    if v['kind'] == 'static_local' and getattr(prog, '_knob_internal', False) and fn.g == common.KNOB:
        return 'violation', ('owner %s is a static local of a function with internal linkage (static): every translation unit gets its own '
                             'copy of the function and of the owner, so a call from one unit does not release the control object created by '
                             'another and TBB keeps applying the minimum of all live limits' % v['name'])
    if v['kind'] in ('static_local', 'global', 'static_member', 'field'):
        cfg = fn.cfg
        vt = prog.base_type(v['ty']) or {}
        if vt.get('ptr') and not vt.get('rec'):
            # raw pointer owner: the previous control object must be deleted before it is overwritten
            dels = [d for d in fn.walk() if d.k == 'CXXDeleteExpr' and d.c and ex.var_of(d.c[0]) == owner]
            good = [d for d in dels if cfg.dominates(d, stmt)]
            if not good:
                return 'violation', ('owner %s is a plain pointer that is overwritten without deleting the previous control object: every earlier '
                                     'global_control stays alive (leaked) and TBB applies the minimum of all live limits, so a later call can never '
                                     'raise the limit again' % v['name'])
        p = cfg.pos_of(stmt)
        if p is None:
            return 'undecided', 'statement not in the CFG'
        if cfg.block_postdominates(p[0], cfg.entry):
            return 'ok', 'stored into %s owner %s on every path of %s' % (v['kind'], v['name'], fn.g)
        # a path that skips the store under a test of the owner itself may be a correct "already installed" fast path: not decided here
        gs = [c for (c, pol, _b) in cfg.guards_of(stmt) if ex.refs_var(c, owner)]
        if gs:
            return 'undecided', 'the store into owner %s is skipped under `%s`, a test of the owner itself (a cache of the installed limit?)' % (v['name'], gs[0].text(50))
        return 'violation', 'store into owner %s is skipped on some path of %s' % (v['name'], fn.g)
    return 'undecided', 'owner kind %s' % v['kind']


def knob_sites_through_helpers(prog, main):
    """[(knob call, helper function, call of the helper in main)] for helpers of the driver (functions with a body in the same program that
    main calls) that call the knob"""
    out = []
    for hc in main.walk():
        if hc.k == 'CallExpr' and hc.callee_id is not None and hc.callee and hc.callee['g'] != common.KNOB:
            hf = prog.fn_of_fref(hc.callee_id)
            if hf is None or hf.body is None or hf is main or hf.cfg is None:
                continue
            if not hf.file.startswith(env.REPO + '/src') and not hf.file.startswith(env.WITNESS):
                continue
            for k_ in hf.walk():
                if ex.is_call(k_, common.KNOB):
                    out.append((k_, hf, hc))
    return out


def r20b(rep, prog):
    n_mains = 0
    for main in common.mains(prog):
        if not any(s.value and re.match(r'^cores(,|$)', s.value) for s in ex.string_literals(main.body)):
            continue
        n_mains += 1
        cfg = main.cfg
        knobs = [n for n in main.walk() if ex.is_call(n, common.KNOB)]
        sites = [(k_, main, k_) for k_ in knobs]
        if not knobs:
            sites = knob_sites_through_helpers(prog, main)
            knobs = [k_ for (k_, _f, _a) in sites]
        tbbs = [n for n in main.walk() if n.k == 'CallExpr' and n.callee and TBB_ENTRY.match(n.callee['g'])]
        if not tbbs:
            rep.info('R20b', main.body, main, 'main declares "cores" but calls no *_tbb entry point', '')
            continue
        if not knobs:
            rep.violation('R20b', main.body, main, 'the "cores" option reaches set_global_tbb_concurrency',
                          'option "cores" is declared but the knob is never called', key='R20b|%s|no-call' % prog.tu)
            continue
        # guards common to all tbb calls
        tg = None
        for t in tbbs:
            g = {(c.i, pol) for (c, pol, _b) in cfg.guards_of(t)}
            tg = g if tg is None else (tg & g)
        for (kcall, kfn, anchor) in sites:
            what = 'knob call precedes every *_tbb call and depends only on options cores/parallel'
            problems = []
            und = []
            for t in tbbs:
                if not cfg.reaches(anchor, t):
                    problems.append('%s at line %d is not reachable from the knob call' % (t.callee['name'], t.line))
                if cfg.reaches(t, anchor):
                    problems.append('knob call is reachable from %s at line %d (too late)' % (t.callee['name'], t.line))
            rel = [(c, pol) for (c, pol, _b) in cfg.guards_of(anchor) if (c.i, pol) not in tg]
            if kfn is not main:
                # the knob sits in a helper of the driver: the conditions inside the helper count as well
                rel += [(c, pol) for (c, pol, _b) in kfn.cfg.guards_of(kcall)]
            atoms = []
            for (c, pol) in rel:
                f = ex.formula(c, lambda leaf: _atom(leaf))
                if f is None and _compares_with_hardware(kfn if kfn.cfg is not None and any(x is c for x in kfn.walk()) else main, c):
                    # the requested value is compared with the machine's thread count and the knob is only called for one outcome: for the
                    # other outcome a requested limit is not applied at all
                    problems.append('the knob call is conditioned on `%s` (line %d), a comparison of the requested value with hardware_concurrency(): for that value of --cores '
                                    'no limit is installed (TBB\'s default is the process affinity mask, not the number of hardware threads)' % (c.text(60), c.line))
                    continue
                if f is None:
                    und.append('condition `%s` at line %d is not over option atoms' % (c.text(80), c.line))
                    continue
                if not pol:
                    f = ex.f_not(f)
                atoms.append((f, c))
            for (f, c) in atoms:
                for a in ex.f_atoms(f):
                    if a not in (('count', 'cores'), ('opt', 'parallel')):
                        problems.append('knob call depends on unrelated condition %s=`%s` (line %d)' % (a, c.text(60), c.line))
                # polarity: f must be implied-true exactly when cores given & parallel: f(count=T,parallel=T) must hold
                envv = {a: True for a in ex.f_atoms(f)}
                try:
                    if not ex.f_eval(f, envv):
                        problems.append('knob call is skipped when `%s` holds (line %d)' % (c.text(60), c.line))
                except KeyError:
                    pass
            # R20c: the value handed to the knob is what --cores said (0 = hardware concurrency)
            whatv = 'the value passed to the knob is the value of --cores (0 meaning all hardware threads)'
            arg = kcall.args()[0] if kcall.args() else None
            xv = ex.var_of(arg) if arg is not None else None
            if arg is not None and common.option_atom(arg) == ('opt', 'cores'):
                rep.ok('R20c', kcall, main, whatv, 'option value passed directly')
            elif xv is None and arg is not None and arg.strip_all().k == 'ConditionalOperator' and [
                    a_ for a_ in (common.option_atom(x_) for x_ in [arg.strip_all().cond.strip_all()] + list(arg.strip_all().cond.walk()))
                    if a_ is not None and a_[1] != 'cores']:
                other = [a_ for a_ in (common.option_atom(x_) for x_ in [arg.strip_all().cond.strip_all()] + list(arg.strip_all().cond.walk()))
                         if a_ is not None and a_[1] != 'cores'][0]
                rep.violation('R20c', kcall, main, whatv, 'the value handed to the knob is selected by the unrelated option --%s (`%s`): with that option the requested number of '
                              'cores is replaced by another value' % (other[1], arg.text(50)), key='R20c|%s|value-by-other-option' % os.path.basename(prog.tu))
            elif xv is None:
                rep.undecided('R20c', kcall, main, whatv, 'argument `%s` is not a variable' % (arg.text(30) if arg is not None else '?'))
            elif knob_value_cases(kfn, arg) is not None and len(ex.assignments_to(kfn, xv)) == 1:
                cases = knob_value_cases(kfn, arg)
                if cases['nonzero'] == 'req':
                    rep.ok('R20c', kcall, main, whatv, 'for a non-zero --cores the argument is the requested value')
                else:
                    rep.violation('R20c', kcall, main, whatv, 'for a non-zero --cores the argument evaluates to `%s`, not the requested value' % cases['nonzero'].text(40),
                                  key='R20c|%s|value' % os.path.basename(prog.tu))
            else:
                defs = ex.assignments_to(kfn, xv)
                # a local bound to the option at declaration:  ("cores", po::value<int>(&local))  stores the parsed value into it
                bound = set()
                for oc in kfn.walk():
                    if oc.k == 'CXXOperatorCallExpr' and oc.op == '()' and len(oc.c) >= 3:
                        nm = oc.c[2].strip_all() if len(oc.c) > 2 else None
                        key = nm.value if nm is not None and nm.k == 'StringLiteral' else None
                        if isinstance(key, str) and key.split(',')[0] == 'cores':
                            for x in oc.c[3].walk() if len(oc.c) > 3 else ():
                                if x.k == 'UnaryOperator' and x.op == '&' and ex.var_of(x.c[0]) is not None:
                                    bv = ex.var_of(x.c[0])
                                    if all(dn.k == 'VarDecl' for (dn, _r) in ex.assignments_to(kfn, bv)):
                                        bound.add(bv)
                from_opt = [d for (d, rhs) in defs if rhs is not None and (common.option_atom(rhs) == ('opt', 'cores') or ex.var_of(rhs) in bound)]
                vprobs = []
                cfg_k = kfn.cfg
                if not from_opt:
                    opaque_rhs = [rhs for (d, rhs) in defs if rhs is not None and rhs.strip_all().k in ex.CALL_KINDS and rhs.strip_all().callee and
                                  rhs.strip_all().callee.get('in_repo')] or \
                                 [rhs for (d, rhs) in defs if rhs is not None and rhs.strip_all().cv is None and
                                  not any(x.k in ex.CALL_KINDS and x.callee and x.callee['name'] in ('hardware_concurrency', 'max_allowed_parallelism', 'default_concurrency')
                                          for x in [rhs.strip_all()] + list(rhs.walk()))]
                    if opaque_rhs:
                        rep.undecided('R20c', kcall, main, whatv, 'the argument is assigned from `%s`, whose relation to --cores is not traced' % opaque_rhs[0].text(40))
                        defs = []
                        vprobs = None
                    else:
                        vprobs.append('the variable is never assigned from vm["cores"]')
                for (d, rhs) in defs:
                    if d in from_opt:
                        continue
                    if not cfg_k.reaches(d, kcall):
                        continue

                    def zatom(leaf):
                        s2 = leaf.strip_all()
                        if s2.k == 'BinaryOperator' and s2.op in ('==', '!=') and ((ex.var_of(s2.c[0]) == xv and s2.c[1].strip_all().cv == 0) or
                                                                                 (ex.var_of(s2.c[1]) == xv and s2.c[0].strip_all().cv == 0)):
                            f0 = ex.f_atom('zero')
                            return f0 if s2.op == '==' else ex.f_not(f0)
                        if s2.k == 'UnaryOperator' and s2.op == '!' and ex.var_of(s2.c[0]) == xv:
                            return ex.f_atom('zero')
                        return None
                    from .c10 import guards_formula, implies
                    g = guards_formula(cfg_k, d, zatom)
                    if 'zero' in ex.f_atoms(g) and implies(g, ex.f_atom('zero')):
                        continue
                    vprobs.append('`%s` (line %d) replaces the requested value also when it is not 0' % (d.text(50), d.line))
                if vprobs is None:
                    pass
                elif vprobs:
                    rep.violation('R20c', kcall, main, whatv, '; '.join(vprobs), key='R20c|%s|value' % os.path.basename(prog.tu))
                else:
                    rep.ok('R20c', kcall, main, whatv, 'assigned from vm["cores"]; only re-assigned under == 0')
            relnames = sorted({repr(a) for (f, c) in atoms for a in ex.f_atoms(f)})
            detail = 'relative control dependence atoms: %s' % ', '.join(relnames)
            tu = os.path.basename(prog.tu)
            if problems:
                rep.violation('R20b', kcall, main, what, '; '.join(problems) + ' [' + detail + ']',
                              key='R20b|%s|%s' % (tu, '|'.join(sorted(set(p.split(' (line')[0] for p in problems)))))
            elif und:
                rep.undecided('R20b', kcall, main, what, '; '.join(und))
            else:
                rep.ok('R20b', kcall, main, what, detail + '; %d *_tbb calls reachable' % len(tbbs))
    return n_mains


NONZERO_CALLS = ('hardware_concurrency', 'default_concurrency', 'max_concurrency')


def _nonzero_value(n):
    """is the expression non-zero for every run?  True / False / None (unknown)"""
    s = n.strip_all()
    if s.cv is not None:
        return s.cv != 0
    if s.k in ('CallExpr', 'CXXMemberCallExpr') and s.callee:
        if s.callee['name'] in NONZERO_CALLS:
            return True
        if s.callee['name'] == 'max':
            vals = [_nonzero_value(a) for a in s.args()]
            if any(v is True for v in vals):
                return True
    if s.k == 'ConditionalOperator':
        vals = [_nonzero_value(s.c[1]), _nonzero_value(s.c[2])]
        if all(v is True for v in vals):
            return True
    return None


def knob_value_cases(main, arg, depth=0):
    """{'zero': node|'req', 'nonzero': node|'req'}: what the expression evaluates to when --cores is 0 / is not 0, for the value-flow shape
    const locals + `?:` (each local defined exactly once); None when the expression is outside that shape.  'req' is the requested value."""
    if depth > 4 or arg is None:
        return None
    if common.option_atom(arg) == ('opt', 'cores'):
        return {'zero': 'req', 'nonzero': 'req'}
    s = arg.strip_all()
    v = ex.var_of(s)
    if v is not None:
        defs = ex.assignments_to(main, v)
        if len(defs) != 1 or defs[0][1] is None:
            return None
        return knob_value_cases(main, defs[0][1], depth + 1)
    if s.k == 'ConditionalOperator':
        c = s.cond.strip_all()
        # a bool local holding the test (`const bool given = requested != 0;`)
        for _ in range(3):
            cv_ = ex.var_of(c)
            if cv_ is None:
                break
            cd_ = ex.assignments_to(main, cv_)
            if len(cd_) == 1 and cd_[0][1] is not None and cd_[0][1].strip_all().k in ('BinaryOperator', 'UnaryOperator'):
                c = cd_[0][1].strip_all()
            else:
                break
        # zero test of something that is the requested value in both cases
        pol = None     # True: condition holds iff value is zero
        tested = None
        if c.k == 'BinaryOperator' and c.op in ('==', '!=', '>', '<', '>=', '<='):
            l, r, op = c.c[0], c.c[1], c.op
            if r.strip_all().cv is None and l.strip_all().cv is not None:
                l, r = r, l
                op = {'>': '<', '<': '>', '>=': '<=', '<=': '>='}.get(op, op)
            k = r.strip_all().cv
            if (op, k) in (('==', 0), ('<', 1), ('<=', 0)):
                pol, tested = True, l
            elif (op, k) in (('!=', 0), ('>', 0), ('>=', 1)):
                pol, tested = False, l
        elif c.k == 'UnaryOperator' and c.op == '!':
            pol, tested = True, c.c[0]
        else:
            pol, tested = False, c
        tc = knob_value_cases(main, tested, depth + 1) if tested is not None else None
        if tc != {'zero': 'req', 'nonzero': 'req'}:
            return None
        zero_branch, nz_branch = (s.then, s.els) if pol else (s.els, s.then)
        zc = knob_value_cases(main, zero_branch, depth + 1)
        nc = knob_value_cases(main, nz_branch, depth + 1)
        return {'zero': zc['zero'] if zc else zero_branch, 'nonzero': nc['nonzero'] if nc else nz_branch}
    return None


def knob_zero(rep, prog, main, rule):
    """R11d: --cores=0 (the documented "use all cores") never reaches the knob as 0."""
    from .c10 import guards_formula, implies
    n = 0
    direct = [(x, main) for x in main.walk() if ex.is_call(x, common.KNOB)]
    if not direct:
        direct = [(k_, f_) for (k_, f_, _a) in knob_sites_through_helpers(prog, main)]
    for (kcall, main) in direct:
        cfg = main.cfg
        n += 1
        what = 'the value 0 of --cores never reaches set_global_tbb_concurrency (it is translated to a positive thread count first)'
        arg = kcall.args()[0] if kcall.args() else None
        if arg is None:
            rep.undecided(rule, kcall, main, what, 'knob called without argument')
            continue
        xv = ex.var_of(arg)
        direct = common.option_atom(arg) == ('opt', 'cores')
        cases = knob_value_cases(main, arg)
        if cases is not None and cases['zero'] != 'req':
            nz = _nonzero_value(cases['zero'])
            if nz is True:
                rep.ok(rule, kcall, main, what, 'for --cores=0 the argument evaluates to `%s`, a positive thread count' % cases['zero'].text(40))
                continue
            if nz is False:
                rep.violation(rule, kcall, main, what, 'for --cores=0 the argument evaluates to 0', key='%s|%s|zero' % (rule, os.path.basename(prog.tu)))
                continue
            rep.undecided(rule, kcall, main, what, 'for --cores=0 the argument evaluates to `%s`, not a recognised positive value' % cases['zero'].text(40))
            continue
        if xv is None and not direct:
            nz = _nonzero_value(arg)
            if nz is True:
                rep.ok(rule, kcall, main, what, 'argument `%s` is a non-zero value' % arg.text(30))
            else:
                rep.undecided(rule, kcall, main, what, 'argument `%s` is neither a variable nor the option value' % arg.text(30))
            continue

        def is_x(e):
            return (xv is not None and ex.var_of(e) == xv) or (direct and common.option_atom(e) == ('opt', 'cores'))

        def zatom(leaf):
            s2 = leaf.strip_all()
            if s2.k == 'BinaryOperator' and s2.op in ('==', '!=', '>', '<', '>=', '<='):
                l, r = s2.c[0], s2.c[1]
                op = s2.op
                if is_x(r):
                    l, r = r, l
                    op = {'>': '<', '<': '>', '>=': '<=', '<=': '>='}.get(op, op)
                if is_x(l) and r.strip_all().cv is not None:
                    c = r.strip_all().cv
                    f0 = ex.f_atom('zero')
                    # over the non-negative values the option can meaningfully take
                    if (op, c) in (('==', 0), ('<', 1), ('<=', 0)):
                        return f0
                    if (op, c) in (('!=', 0), ('>', 0), ('>=', 1)):
                        return ex.f_not(f0)
                return None
            if s2.k == 'UnaryOperator' and s2.op == '!' and is_x(s2.c[0]):
                return ex.f_atom('zero')
            if is_x(s2):
                return ex.f_not(ex.f_atom('zero'))
            a = common.option_atom(leaf)
            if a is not None:
                return ex.f_atom(a)
            return None
        gk = guards_formula(cfg, kcall, zatom)
        if 'zero' in ex.f_atoms(gk) and implies(gk, ex.f_not(ex.f_atom('zero'))):
            rep.ok(rule, kcall, main, what, 'the knob call is guarded by a non-zero test of the value')
            continue
        fixes, unknown = [], []
        if xv is not None:
            for (d, rhs) in ex.assignments_to(main, xv):
                if rhs is None or common.option_atom(rhs) == ('opt', 'cores'):
                    continue
                if not cfg.reaches(d, kcall) or cfg.reaches(kcall, d):
                    continue
                gd = guards_formula(cfg, d, zatom)
                if 'zero' not in ex.f_atoms(gd):
                    continue
                # whenever the value is 0 and the knob call will be reached, the replacement executes
                if not implies(ex.f_and(ex.f_atom('zero'), gk), gd):
                    continue
                nz = _nonzero_value(rhs)
                if nz is True:
                    fixes.append(d)
                elif nz is None:
                    unknown.append(d)
        # the value may be produced by a helper of the repo that does the translation (`cores = effective_concurrency(requested, hw)`)
        via_helper = None
        if xv is not None and not fixes:
            for (d, rhs) in ex.assignments_to(main, xv):
                r_ = rhs.strip_all() if rhs is not None else None
                if r_ is not None and r_.k in ex.CALL_KINDS and r_.callee and r_.callee.get('in_repo') and r_.callee['g'] != common.KNOB:
                    via_helper = r_
        if fixes:
            rep.ok(rule, kcall, main, what, 'replaced at line %d under `== 0` by a positive thread count' % fixes[0].line)
        elif via_helper is not None:
            rep.undecided(rule, kcall, main, what, 'the value comes from the helper `%s`, whose translation of 0 is not evaluated' % via_helper.callee['name'])
        elif unknown:
            rep.undecided(rule, kcall, main, what, 'replacement `%s` (line %d) is not a recognised positive value' % (unknown[0].text(40), unknown[0].line))
        else:
            rep.violation(rule, kcall, main, what,
                          '--cores=0 ("use all cores") is handed to the knob unchanged: tbb::global_control rejects '
                          'max_allowed_parallelism 0 (release assertion, abort), so a valid file does not give exit status 0 '
                          'for this option combination', key='%s|%s|zero' % (rule, os.path.basename(prog.tu)))
    return n


def store_order(rep, prog, main, rule='R20d'):
    """boost::program_options keeps the FIRST value stored for an option: the command line must be stored before any other source (environment,
    config file), otherwise that source silently overrides an explicit --cores n"""
    cfg = main.cfg
    stores = [n for n in main.walk() if n.k == 'CallExpr' and n.callee and n.callee['g'] == 'boost::program_options::store' and n.args()]
    if not stores:
        return 0

    def source(n):
        for x in [n.args()[0].strip_all()] + list(n.args()[0].walk()):
            if x.k in ('CallExpr', 'CXXMemberCallExpr') and x.callee and x.callee['name'] in ('parse_environment', 'parse_config_file'):
                return x.callee['name']
        return 'command line'
    what = 'the command line is the first source stored into the variables_map (the first stored value of an option wins)'
    cmd = [n for n in stores if source(n) == 'command line']
    other = [n for n in stores if source(n) != 'command line']
    if not other:
        rep.ok(rule, stores[0], main, what, 'only the command line is stored')
        return 1
    bad = [o for o in other if any(cfg.reaches(o, c) and not cfg.reaches(c, o) for c in cmd)]
    if bad:
        rep.violation(rule, bad[0], main, what, 'values from %s are stored before the command line: a preset there overrides an explicit --cores n (and every other '
                      'option), so the limit in force is not the requested one' % source(bad[0]), key='%s|%s|store-order' % (rule, os.path.basename(prog.tu)))
    else:
        rep.ok(rule, stores[0], main, what, 'other sources are stored after the command line (fallback only)')
    return 1


def _compares_with_hardware(fn, cond):
    """does the condition compare something with hardware_concurrency() (directly or through a local initialised from it)"""
    def from_hw(e, depth=0):
        s_ = e.strip_all()
        if any(x.k in ex.CALL_KINDS and x.callee and x.callee['name'] in ('hardware_concurrency', 'default_concurrency', 'max_concurrency')
               for x in [s_] + list(s_.walk())):
            return True
        v = ex.var_of(s_)
        if v is not None and depth < 3:
            defs = ex.assignments_to(fn, v)
            return bool(defs) and all(rhs is not None and from_hw(rhs, depth + 1) for (_d, rhs) in defs)
        return False
    for x in [cond.strip_all()] + list(cond.walk()):
        if x.k == 'BinaryOperator' and x.op in ('==', '!=', '<', '>', '<=', '>=') and len(x.c) == 2:
            if from_hw(x.c[0]) != from_hw(x.c[1]):
                return True
    return False


def _atom(leaf):
    a = common.option_atom(leaf)
    if a is not None:
        return ex.f_atom(a)
    s0 = leaf.strip_all()
    if s0.k == 'BinaryOperator' and s0.op in ('==', '!=', '>', '<', '>=', '<='):
        # vm.count("x") compared with 0 / 1 (count is 0 or 1)
        l, r, op = s0.c[0], s0.c[1], s0.op
        if common.option_atom(r) is not None and l.strip_all().cv is not None:
            l, r = r, l
            op = {'>': '<', '<': '>', '>=': '<=', '<=': '>='}.get(op, op)
        a = common.option_atom(l)
        k = r.strip_all().cv
        if a is not None and a[0] == 'count' and k is not None:
            if (op, k) in (('!=', 0), ('>', 0), ('>=', 1), ('==', 1)):
                return ex.f_atom(a)
            if (op, k) in (('==', 0), ('<', 1), ('<=', 0), ('!=', 1)):
                return ex.f_not(ex.f_atom(a))
        if a is not None and a[0] == 'opt' and k in (0, 1) and op in ('==', '!=') and (l.strip_all().type or {}).get('bool'):
            pos = (op == '==') == (k == 1)
            return ex.f_atom(a) if pos else ex.f_not(ex.f_atom(a))
    v = ex.var_of(leaf)
    if v is not None:
        d = ex.unique_def(leaf.fn, v)
        if d is not None:
            a = common.option_atom(d)
            if a is not None:
                return ex.f_atom(a)
            # a local boolean computed once from option values: use its defining formula
            if d.strip_all().k in ('BinaryOperator', 'UnaryOperator', 'ParenExpr') and d is not leaf:
                return ex.formula(d, _atom)
    return None


def r20f(rep, prog):
    """the knob destroys the control object of the previous call: `owner.release()` only gives up ownership (the object stays alive for the rest of
    the process), and TBB applies the minimum over all live controls - a later, larger request is then silently ignored."""
    what = 'the previous tbb::global_control is destroyed (reset / assignment), never merely released'
    n = 0
    for fn in prog.fns(common.KNOB):
        for c in fn.walk():
            if c.k == 'CXXMemberCallExpr' and c.callee and c.callee['name'] == 'release' and c.object_arg() is not None and \
                    'unique_ptr' in ((prog.base_type(c.object_arg().strip_all().j.get('t')) or {}).get('canon') or ''):
                n += 1
                up = c.top_transparent().parent
                used = up is not None and up.k not in ('CompoundStmt', 'ExprWithCleanups', 'IfStmt', 'ForStmt', 'WhileStmt')
                if not used:
                    rep.violation('R20f', c, fn, what, '`%s` drops the pointer without deleting the control: it stays in force for the rest of the process, and since TBB takes '
                                  'the minimum of all live controls no later call can raise the limit again' % c.text(30), key='R20f|%s|release' % fn.g)
                else:
                    rep.undecided('R20f', c, fn, what, 'the released pointer is used by `%s`' % up.text(40))
    return n


UNLIMITED_SPAWN = ('enqueue', 'async', 'pthread_create')
UNLIMITED_TYPES = ('std::thread', 'std::jthread', 'boost::thread')


def r20e(rep, prog):
    """the library starts work only through the interfaces that max_allowed_parallelism governs (parallel_for / parallel_reduce / ... in
    the caller's arena): `task_arena::enqueue` / `this_task_arena::enqueue` makes the scheduler wake a worker for the enqueued task even when
    the limit is 1, and std::async / std::thread are not TBB threads at all - either way more threads run library tasks than the knob allows"""
    what = 'library code starts no thread / fire-and-forget task outside the limit of set_global_tbb_concurrency'
    n = 0
    for fn in prog.functions:
        if fn.implicit or fn.body is None or not (fn.file.startswith(env.REPO + '/include') or fn.file.startswith(env.WITNESS + '/positive')):
            continue
        for c in fn.walk():
            if c.k in ex.CALL_KINDS and c.callee:
                g = c.callee['g']
                if (c.callee['name'] in UNLIMITED_SPAWN and (g.startswith('tbb::') or g.startswith('oneapi::tbb') or g.startswith('std::') or g == 'pthread_create')):
                    n += 1
                    rep.violation('R20e', c, fn, what, '`%s` (%s) hands work to a thread that max_allowed_parallelism does not count: with the knob set to 1 two threads run '
                                  'library tasks at once' % (c.text(40), g), key='R20e|%s|%s' % (fn.g, c.callee['name']))
            if c.k in ex.CTOR_KINDS and c.callee and (c.callee.get('rec') or '') in UNLIMITED_TYPES and len(c.c) >= 1:
                n += 1
                rep.violation('R20e', c, fn, what, 'a `%s` is started by the library: it is not governed by the TBB limit' % c.callee.get('rec'),
                              key='R20e|%s|thread' % fn.g)
    return n


def run(rep, tier):
    rep.rule('R20e', 'no unlimited thread / enqueue in the library', floor=0)
    rep.rule('R20f', 'the knob never leaks a live control object', floor=0)
    rep.rule('R20a', 'the TBB control object outlives set_global_tbb_concurrency and is re-created on every call', floor=1)
    rep.rule('R20b', 'demos call the knob whenever a parallel algorithm is selected, independent of unrelated flags', floor=2)
    rep.rule('R20c', 'the knob receives the value of --cores', floor=2)
    tus = [env.witness_tu()] + env.demo_tus()
    progs = env.extract(tus, 'full')
    rep.saw_programs(progs.values())
    knob_seen = 0
    mains_seen = 0
    rep.rule('R20d', 'the command line is stored into the variables_map before any other option source', floor=2)
    for tu, prog in progs.items():
        knob_seen += r20a(rep, prog)
        mains_seen += r20b(rep, prog)
        r20e(rep, prog)
        r20f(rep, prog)
        for m_ in common.mains(prog):
            if any(s_.value and re.match(r'^cores(,|$)', s_.value) for s_ in ex.string_literals(m_.body)):
                store_order(rep, prog, m_)
    if knob_seen == 0:
        rep.analysis_broken('no tbb::global_control / task_scheduler_init creation reachable from %s (anchor vanished)' % common.KNOB)
    # positive examples
    pos = os.path.join(env.WITNESS, 'positive', 'c20_local_control.cc')
    pp = env.extract([pos], 'full')[pos]
    prep = type(rep)(rep.prop, rep.tier)
    r20a(prep, pp)
    r20b(prep, pp)
    r20f(prep, pp)
    rep.positive('R20f', 'witness/positive/c20_local_control.cc', any(i.status == 'violation' and i.rule == 'R20f' for i in prep.instances.values()))
    r20e(prep, pp)
    rep.positive('R20e', 'witness/positive/c20_local_control.cc', any(i.status == 'violation' and i.rule == 'R20e' for i in prep.instances.values()))
    for m_ in common.mains(pp):
        store_order(prep, pp, m_)
    rep.positive('R20d', 'witness/positive/c20_local_control.cc', any(i.status == 'violation' and i.rule == 'R20d' for i in prep.instances.values()))
    rep.positive('R20a', 'witness/positive/c20_local_control.cc', any(i.status == 'violation' and i.rule == 'R20a' for i in prep.instances.values()))
    rep.positive('R20b', 'witness/positive/c20_local_control.cc', any(i.status == 'violation' and i.rule == 'R20b' for i in prep.instances.values()))
    rep.positive('R20c', 'witness/positive/c20_local_control.cc', any(i.status == 'violation' and i.rule == 'R20c' for i in prep.instances.values()))
    rep.assume('TBB semantics: a global_control limits parallelism exactly while the object is alive; when several are alive the minimum applies')
    rep.assume('only the configuration with PARMCB_HAVE_TBB is analysed (the knob does not exist otherwise)')
