"""C14 - candidate cycle collections are sound, nested and sufficient.

Sufficiency ("each collection contains a minimum basis") is value-level: NOT claimed.  Decided:
R14a  every candidate is built from a graph edge e and a tree t under the guards: e is not a predecessor edge of t, both
      endpoints have tree nodes, and their first-in-path labels differ (=> two root paths through different children of the root
      plus a non-tree edge: a simple cycle through the root)                                                   (A1/A3)
R14b  the recorded weight is W[e] + weight(node(source e)) + weight(node(target e)) for that same e and tree      (A4)
R14c  FVS and ISO collections take their candidates only from create_candidate_cycles of trees / from (tree, edge) pairs read back
      from already-guarded Horton candidates (sub-collections by provenance)
R14d  the root node of a tree has weight zero (its constructor value-initialises the weight)
R12b  every visited tree node (root included) gets the first-in-path label that R14a's guard compares
R12a  the lexicographic comparator that makes the trees consistent is consistent per rung
"""
import os

from lib import env, ex
from . import c12
from .c10 import guards_formula

TITLE = 'C14: guards and recorded weight of every candidate construction site; provenance of the FVS/ISO sub-collections; root weight.'


def resolve_node_call(fn, expr, depth=0):
    """('node', 'source'|'target', edge var) if expr is (a variable holding) node(boost::source/target(e, g)) /
    tree.node(boost::source(e, g))"""
    if depth > 4 or expr is None:
        return None
    s = expr.strip_all()
    v = ex.var_of(s)
    if v is not None:
        d = ex.unique_def(fn, v)
        return resolve_node_call(fn, d, depth + 1) if d is not None else None
    if s.k == 'CXXMemberCallExpr' and s.callee and s.callee['name'] == 'node' and s.args():
        a = s.args()[0].strip_all()
        av = ex.var_of(a)
        if av is not None:
            # a local holding the endpoint: const Vertex ev = boost::source(e, g);
            ad = ex.unique_def(fn, av)
            if ad is not None:
                a = ad.strip_all()
        if a.k == 'CallExpr' and a.callee and a.callee['g'] in ('boost::source', 'boost::target') and a.args():
            return ('node', a.callee['name'], ex.key(a.args()[0]), ex.key(s.object_arg()) if s.object_arg() is not None else None)
    return None


def _through_arrow(o):
    """the smart pointer behind `p->member` (operator-> call)"""
    s = o.strip_all()
    if s.k == 'CXXOperatorCallExpr' and s.op == '->' and len(s.c) >= 2:
        return s.c[1]
    return o


def check_site(rep, prog, fn, site, args, kind):
    """site: emplace_back / constructor creating a candidate; args: its argument nodes"""
    cfg = fn.cfg
    what = 'a candidate is only created for a non-tree edge whose endpoints hang below different children of the root'
    # the edge argument
    evar = None
    for a in args:
        s = a.strip_all()
        t = prog.base_type(s.j.get('t')) or {}
        if 'edge_desc_impl' in (t.get('canon') or ''):
            evar = ex.key(a)
        if s.k == 'CXXOperatorCallExpr' and s.op == '()' and s.callee and s.callee['g'] == 'parmcb::ForestIndex::operator()':
            evar = ex.key(s.c[2])
    if evar is None:
        rep.undecided('R14a', site, fn, what, 'edge argument of the candidate not recognised')
        return
    # set of tree edges: a std::set<Edge> filled from n->pred()
    tree_sets = set()
    for n in fn.walk():
        if n.k == 'CXXMemberCallExpr' and n.callee and n.callee['name'] == 'insert' and n.args():
            a = n.args()[0].strip_all()
            if a.k == 'CXXMemberCallExpr' and a.callee and a.callee['name'] == 'pred':
                tree_sets.add(ex.var_of(n.object_arg()))

    # ... or a set returned by a helper that fills it that way
    for n in fn.walk():
        if n.k == 'VarDecl' and n.c:
            d0 = n.c[0].strip_all()
            if d0.k in ('CXXMemberCallExpr', 'CallExpr') and d0.callee and d0.callee.get('in_repo') and d0.callee_id is not None:
                hf = prog.fn_of_fref(d0.callee_id)
                if hf is not None and hf.body is not None:
                    filled = set()
                    for x in hf.walk():
                        if x.k == 'CXXMemberCallExpr' and x.callee and x.callee['name'] == 'insert' and x.args():
                            a = x.args()[0].strip_all()
                            if a.k == 'CXXMemberCallExpr' and a.callee and a.callee['name'] == 'pred':
                                filled.add(ex.var_of(x.object_arg()))
                    rets = ex.returns_of(hf)
                    if rets and all(r.c and ex.var_of(r.c[0]) in filled for r in rets):
                        tree_sets.add(n.decl_id)

    def atomize(leaf):
        s = leaf.strip_all()
        m = ex.membership(leaf)
        if m is not None and ex.var_of(m[0]) in tree_sets and ex.key(m[1]) == evar:
            f = ex.f_atom('tree_edge')
            return f if m[2] else ex.f_not(f)
        # the local form of the tree-edge test: e is the predecessor edge of one of its endpoints
        if s.k in ('BinaryOperator', 'CXXOperatorCallExpr') and s.op in ('==', '!='):
            ops_ = s.c if s.k == 'BinaryOperator' else s.c[1:]
            if len(ops_) == 2:
                for a_, b_ in ((ops_[0], ops_[1]), (ops_[1], ops_[0])):
                    b2 = b_.strip_all()
                    if ex.key(ex.subst(a_)) == evar and b2.k == 'CXXMemberCallExpr' and b2.callee and b2.callee['name'] == 'pred' and b2.object_arg() is not None:
                        r = resolve_node_call(fn, ex.subst(_through_arrow(b2.object_arg())))
                        if r and r[2] == evar:
                            f = ex.f_atom('pred_is_e_' + r[1])
                            return f if s.op == '==' else ex.f_not(f)
        if s.k == 'CXXMemberCallExpr' and s.callee and s.callee['name'] == 'has_pred' and s.object_arg() is not None:
            r = resolve_node_call(fn, ex.subst(_through_arrow(s.object_arg())))
            if r and r[2] == evar:
                return ex.f_atom('has_pred_' + r[1])
        nt = ex.null_test(leaf)
        if nt is not None:
            r = resolve_node_call(fn, nt[0])
            if r and r[2] == evar:
                f = ex.f_atom('null_' + r[1])
                return f if nt[1] else ex.f_not(f)
        if s.k in ('BinaryOperator', 'CXXOperatorCallExpr') and s.op in ('==', '!='):
            ops = s.c if s.k == 'BinaryOperator' else s.c[1:]
            if len(ops) == 2:
                da, db = first_label(fn, ops[0], evar), first_label(fn, ops[1], evar)
                if da and db and {da, db} == {'source', 'target'}:
                    f = ex.f_atom('same_first')
                    return f if s.op == '==' else ex.f_not(f)
        return None
    pc = guards_formula(cfg, site, atomize)
    atoms = ex.f_atoms(pc)
    need = ['tree_edge', 'null_source', 'null_target', 'same_first'] if kind == 'fresh' else ['null_source', 'null_target']
    missing = []
    import itertools
    others = [a for a in atoms if a not in need and not (isinstance(a, str) and a.startswith(('pred_is_e_', 'has_pred_')))]
    for bad in need:
        if bad == 'tree_edge' and bad not in atoms and 'pred_is_e_source' in atoms and 'pred_is_e_target' in atoms:
            # e is a tree edge iff it is the predecessor edge of its source or of its target (a predecessor edge is incident to its vertex)
            reach = False
            for end in ('source', 'target'):
                rest = [a for a in atoms if a not in ('pred_is_e_' + end, 'has_pred_' + end)]
                for vals in itertools.product((False, True), repeat=len(rest)):
                    e = dict(zip(rest, vals))
                    e['pred_is_e_' + end] = True
                    e['has_pred_' + end] = True
                    if ex.f_eval(pc, e):
                        reach = True
            if reach:
                missing.append(bad)
            continue
        if bad not in atoms:
            missing.append(bad)
            continue
        # is the site reachable with `bad` true?
        reach = False
        rest = [a for a in atoms if a != bad]
        for vals in itertools.product((False, True), repeat=len(rest)):
            e = dict(zip(rest, vals))
            e[bad] = True
            if ex.f_eval(pc, e):
                reach = True
                break
        if reach:
            missing.append(bad)
    names = {'tree_edge': 'e is a predecessor (tree) edge', 'null_source': 'the source endpoint has no tree node',
             'null_target': 'the target endpoint has no tree node', 'same_first': 'both endpoints hang below the same child of the root'}
    if missing and any(bad not in atoms for bad in missing) and ex.opaque_nodes(fn, pc) and \
            any(n.enclosing('ForStmt', 'WhileStmt', 'CXXForRangeStmt') is not None and not (n.enclosing('ForStmt', 'WhileStmt', 'CXXForRangeStmt').cond is not None and
                (n.enclosing('ForStmt', 'WhileStmt', 'CXXForRangeStmt').cond.is_ancestor_of(n) or n.enclosing('ForStmt', 'WhileStmt', 'CXXForRangeStmt').cond.strip() is n))
                for n in ex.opaque_nodes(fn, pc)):
        rep.undecided('R14a', site, fn, what, 'guard `%s` is outside the idiom table' % ex.opaque_nodes(fn, pc)[0].text(40))
    elif missing:
        rep.violation('R14a', site, fn, what, 'the candidate is also created when ' + '; or when '.join(names[m] for m in missing) +
                      ': it is then not a simple cycle through the root', key='R14a|%s|%s' % (fn.g, ','.join(missing)))
    else:
        rep.ok('R14a', site, fn, what, 'guards: ' + ', '.join('not ' + n for n in need))
    # R14b weight
    if kind in ('fresh', 'reemit'):
        whatw = 'the recorded weight is W[e] + weight(node(source e)) + weight(node(target e))'
        wargs = [a for a in args if (prog.base_type(a.strip_all().j.get('t')) or {}).get('arith') and ex.key(a) != evar]
        wexpr = None
        for a in wargs:
            v = ex.var_of(a)
            d = ex.unique_def(fn, v) if v is not None else a
            if d is not None and any(x.k == 'CXXMemberCallExpr' and x.callee and x.callee['name'] == 'weight' for x in d.walk()):
                wexpr = d
        if wexpr is None:
            if kind == 'fresh' and any('Serializable' in (prog.base_type(site.j.get('t')) or {}).get('canon', '') for _ in [0]):
                return
            # serializable candidates carry no weight
            return
        terms = []
        ok = True

        def collect(n):
            s = n.strip_all()
            if s.k in ('BinaryOperator', 'CXXOperatorCallExpr') and s.op == '+':
                ops = s.c if s.k == 'BinaryOperator' else s.c[1:]
                for o in ops:
                    collect(o)
                return
            if s.k == 'CallExpr' and s.callee and s.callee['g'] == 'boost::get' and len(s.args()) == 2 and ex.key(s.args()[1]) == evar:
                terms.append('W[e]')
                return
            if s.k == 'CXXOperatorCallExpr' and s.op == '[]' and len(s.c) == 3 and ex.key(s.c[2]) == evar:
                terms.append('W[e]')
                return
            if s.k == 'CXXMemberCallExpr' and s.callee and s.callee['name'] == 'weight':
                o = s.object_arg()
                if o is not None:
                    oo = o.strip_all()
                    if oo.k == 'CXXOperatorCallExpr' and oo.op == '->':
                        oo = oo.c[1].strip_all()
                    r = resolve_node_call(fn, oo)
                    if r and r[2] == evar:
                        terms.append('w(%s)' % r[1])
                        return
            terms.append('?' + s.text(20))
        collect(wexpr)
        if sorted(terms) == ['W[e]', 'w(source)', 'w(target)']:
            rep.ok('R14b', site, fn, whatw, 'W[e] + w(source) + w(target)')
        else:
            rep.violation('R14b', site, fn, whatw, 'recorded weight is the sum of %s' % terms, key='R14b|%s|weight' % fn.g)


def first_label(fn, expr, evar):
    """'source'/'target' if expr is the first-in-path label of node(source/target(e))"""
    s = expr.strip_all()
    v = ex.var_of(s)
    if v is not None:
        d = ex.unique_def(fn, v)
        return first_label(fn, d, evar) if d is not None else None
    # _first_in_path[_index_map[X->vertex()]]
    if s.k == 'CXXOperatorCallExpr' and s.op == '[]' and len(s.c) == 3:
        cont = s.c[1].strip_all()
        if cont.k == 'MemberExpr' and cont.decl and 'first' in cont.decl.get('name', ''):
            for d in s.c[2].walk():
                if d.k == 'CXXMemberCallExpr' and d.callee and d.callee['name'] == 'vertex':
                    o = d.object_arg()
                    oo = o.strip_all() if o is not None else None
                    if oo is not None and oo.k == 'CXXOperatorCallExpr' and oo.op == '->':
                        oo = oo.c[1].strip_all()
                    r = resolve_node_call(fn, oo)
                    if r and r[2] == evar:
                        return r[1]
    # tree.first(boost::source(e, g)) / first(u) with u = source(e, g)
    if s.k == 'CXXMemberCallExpr' and s.callee and s.callee['name'] == 'first' and s.args():
        a = s.args()[0]
        av = ex.var_of(a)
        d = ex.unique_def(fn, av) if av is not None else a
        if d is not None:
            dd = d.strip_all()
            if dd.k == 'CallExpr' and dd.callee and dd.callee['g'] in ('boost::source', 'boost::target') and ex.key(dd.args()[0]) == evar:
                return dd.callee['name']
    return None


def source_distance_written(prog):
    """does lex_dijkstra store a zero distance for its source vertex in the caller's distance map?"""
    for fn in prog.fns('parmcb::lex_dijkstra'):
        if len(fn.param_ids) < 5:
            continue
        src, dmap = fn.param_ids[2], fn.param_ids[3]
        for c in fn.walk():
            if c.k == 'CallExpr' and c.callee and c.callee['g'] == 'boost::put' and len(c.args()) == 3:
                a = c.args()
                if ex.var_of(a[0]) == dmap and ex.var_of(a[1]) == src:
                    z = a[2].strip_all()
                    if z.cv == 0 or (z.k in ('CXXScalarValueInitExpr', 'CXXTemporaryObjectExpr', 'CXXFunctionalCastExpr') and not z.c) or \
                            (z.k == 'FloatingLiteral' and z.value == 0.0):
                        return True
    return False


def _iterator_range_root(hf, site):
    """(index of `first` parameter, index of `last` parameter) when `site` appends a tree rooted at *it inside
    for (it = first; it != last; ++it) over two parameters of hf"""
    lp = site.enclosing('ForStmt')
    if lp is None or len(site.args()) != 5 or lp.cond is None:
        return None
    root = site.args()[4].strip_all()
    if not (root.k in ('UnaryOperator', 'CXXOperatorCallExpr') and root.op == '*'):
        return None
    it = ex.var_of(root.c[-1])
    init = lp.role('init')
    first = None
    for d in (init.walk() if init is not None else ()):
        if d.k == 'VarDecl' and d.decl_id == it and d.c:
            first = ex.var_of(d.c[0])
    c = lp.cond.strip_all()
    ops = c.c if c.k == 'BinaryOperator' else c.c[1:] if c.k == 'CXXOperatorCallExpr' else []
    if c.op != '!=' or len(ops) != 2 or it is None or first is None:
        return None
    last = ex.var_of(ops[1]) if ex.var_of(ops[0]) == it else ex.var_of(ops[0]) if ex.var_of(ops[1]) == it else None
    if first in hf.param_ids and last in hf.param_ids:
        return hf.param_ids.index(first), hf.param_ids.index(last)
    return None


def check_no_candidate_removed(rep, prog, rule='R01f'):
    """no candidate cycle is taken out of a collection unless it is an exact duplicate (same tree AND same closing edge): two candidates with the
    same closing edge and weight in different trees are different circuits, and the isometric / FVS collections keep exactly one representative
    of each needed circuit.  Applies to every function of the library that removes from a container of CandidateCycle."""
    n = 0
    for fn in prog.functions:
        if fn.implicit or fn.body is None or not (fn.file.startswith(env.REPO + '/include') or fn.file.startswith(env.WITNESS + '/positive')):
            continue

        def is_cand_vec(o):
            t = prog.base_type(o.strip_all().j.get('t')) if o is not None else None
            c = (t or {}).get('canon') or ''
            return 'CandidateCycle' in c and (t or {}).get('rec') in ('std::vector', 'std::deque', 'std::list')
        for m in fn.walk():
            rem = None
            if m.k == 'CXXMemberCallExpr' and m.callee and m.callee['name'] in ('erase', 'pop_back', 'resize', 'unique', 'remove_if') and is_cand_vec(m.object_arg()):
                rem = m
            if rem is None:
                continue
            if m.callee['name'] in ('pop_back', 'resize') and not m.args():
                pass
            n += 1
            what = 'no candidate cycle is removed from a collection unless it duplicates another one exactly (same tree and same closing edge)'
            uniq = [x for x in m.walk() if x.k == 'CallExpr' and x.callee and x.callee['g'] == 'std::unique']
            okeq = False
            if uniq and len(uniq[0].args()) >= 3:
                lam = uniq[0].args()[2].strip_all()
                fields = set()
                for op in (lam.j.get('lambda_ops', ()) if lam.k == 'LambdaExpr' else ()):
                    lf = prog.fn_of_fref(op)
                    for x in (lf.walk() if lf is not None else ()):
                        if x.k == 'CXXMemberCallExpr' and x.callee and x.callee['name'] in ('tree', 'edge', 'weight'):
                            fields.add(x.callee['name'])
                okeq = {'tree', 'edge'} <= fields
            if okeq:
                rep.ok(rule, m, fn, what, 'only exact duplicates (same tree and same edge) are removed')
            else:
                rep.violation(rule, m, fn, what,
                              '`%s` removes candidates that are not exact duplicates: candidates with the same closing edge (and weight) rooted at different trees are '
                              'different circuits; with weight ties a circuit the minimum basis needs disappears from the collection' % m.text(50),
                              key='%s|%s|removed' % (rule, fn.g))
        # filtered insertion: a candidate is copied into the collection only if a key derived from it has not been seen before
        for m in fn.walk():
            if not (m.k == 'CXXMemberCallExpr' and m.callee and m.callee['name'] in ('push_back', 'emplace_back', 'insert') and is_cand_vec(m.object_arg())):
                continue
            for (c, pol) in ex.ast_conditions(m):
                for x in [c.strip_all()] + list(c.walk()):
                    if x.k == 'CXXMemberCallExpr' and x.callee and x.callee['name'] in ('emplace', 'insert', 'count', 'find', 'contains') and x.object_arg() is not None and \
                            ((prog.base_type(x.object_arg().strip_all().j.get('t')) or {}).get('rec') or '') in ('std::set', 'std::unordered_set', 'std::map', 'std::unordered_map'):
                        fields = {y.callee['name'] for a_ in x.args() for y in [a_] + list(a_.walk())
                                  if y.k == 'CXXMemberCallExpr' and y.callee and y.callee['name'] in ('tree', 'edge', 'weight')}
                        if not fields:
                            continue
                        n += 1
                        what = 'no candidate cycle is removed from a collection unless it duplicates another one exactly (same tree and same closing edge)'
                        if {'tree', 'edge'} <= fields:
                            rep.ok(rule, m, fn, what, 'filter key contains tree and edge')
                        else:
                            rep.violation(rule, m, fn, what, 'a candidate is kept only if its key (%s) is new (`%s`): candidates of different trees with the same closing edge '
                                          '(and weight) are different circuits; with weight ties a circuit the minimum basis needs never enters the collection' % (
                                              ', '.join(sorted(fields)), x.text(50)), key='%s|%s|filtered' % (rule, fn.g))
    return n


def check_horton_roots(rep, prog, fn):
    """R14f: Horton's collection has a shortest-path tree rooted at every vertex that can lie on a cycle.  A root may only be skipped when
    no cycle runs through it (degree <= 1); a skip for degree 2 loses the cycle of a component that is a plain ring (no branching vertex at
    all), so the collection no longer contains a minimum basis and the FVS / ISO collections are no longer sub-collections of it."""
    what = 'Horton\'s collection roots a tree at every vertex of degree >= 2'
    cfg = fn.cfg
    from .c10 import guards_formula
    builds = [c for c in fn.walk() if c.k == 'CXXMemberCallExpr' and c.callee and c.callee['name'] in ('emplace_back', 'push_back') and
              c.object_arg() is not None and 'SPTree' in ((prog.base_type(c.object_arg().strip_all().j.get('t')) or {}).get('canon') or '')]
    if not builds:
        rep.undecided('R14f', fn.body, fn, what, 'no tree construction found (helper?)')
        return
    for b in builds:
        lp = b.enclosing('ForStmt', 'CXXForRangeStmt', 'WhileStmt')
        if lp is None or not any(x.k == 'CallExpr' and x.callee and x.callee['g'] == 'boost::vertices' for x in lp.walk()):
            rep.undecided('R14f', b, fn, what, 'trees are not built in a loop over vertices(g)')
            continue

        def atomize(leaf):
            s_ = leaf.strip_all()
            if s_.k == 'BinaryOperator' and s_.op in ('<', '<=', '>', '>=', '==', '!=') and len(s_.c) == 2:
                l_, r_, op = s_.c[0].strip_all(), s_.c[1].strip_all(), s_.op
                def is_deg(e):
                    e = ex.alias_of(fn, e) if e.k == 'DeclRefExpr' else e
                    v_ = ex.var_of(e)
                    if v_ is not None and ex.unique_def(fn, v_) is not None:
                        e = ex.unique_def(fn, v_).strip_all()
                    return e.k == 'CallExpr' and e.callee and e.callee['g'] in ('boost::out_degree', 'boost::degree', 'boost::in_degree')
                if is_deg(r_) and l_.cv is not None:
                    l_, r_ = r_, l_
                    op = {'<': '>', '<=': '>=', '>': '<', '>=': '<=', '==': '==', '!=': '!='}[op]
                if is_deg(l_) and r_.cv is not None:
                    k = r_.cv
                    # atoms d0 (degree 0), d1, d2, d3 (degree >= 3, represented by 3 and a large value)
                    vals = {nm: all(_cmp(dv, op, k) for dv in dvs) if nm != 'd3' else None for nm, dvs in (('d0', (0,)), ('d1', (1,)), ('d2', (2,)))}
                    f = ex.FALSE
                    for nm, dv in (('d0', 0), ('d1', 1), ('d2', 2), ('d3', 3), ('d9', 1000)):
                        if _cmp(dv, op, k):
                            f = ex.f_or(f, ex.f_atom(nm))
                    return f
            return None
        g_ = guards_formula(cfg, b, atomize)
        inner = [a_ for a_ in ex.f_atoms(g_) if isinstance(a_, tuple) and a_ and a_[0] == 'opaque' and lp.is_ancestor_of(fn.nodes[a_[1]]) and
                 not (lp.cond is not None and lp.cond.is_ancestor_of(fn.nodes[a_[1]]))]
        degs = ('d0', 'd1', 'd2', 'd3', 'd9')
        skipped = []
        for dn in degs:
            envv = {a_: True for a_ in ex.f_atoms(g_) if a_ not in degs}
            envv.update({x: (x == dn) for x in degs})
            if any(a_ in degs for a_ in ex.f_atoms(g_)) and not ex.f_eval(g_, envv):
                skipped.append(dn)
        harmful = [d_ for d_ in skipped if d_ in ('d2', 'd3', 'd9')]
        if harmful:
            rep.violation('R14f', b, fn, what, 'no tree is rooted at a vertex of degree %s: the cycle of a component that is a plain ring (every vertex has degree 2) is in no '
                          'tree\'s candidate list, so Horton\'s collection misses a basis cycle' % {'d2': '2', 'd3': '3', 'd9': '>= 4'}[harmful[0]],
                          key='R14f|%s|skip' % fn.g)
        elif inner:
            rep.undecided('R14f', b, fn, what, 'a tree is built only under `%s`' % fn.nodes[inner[0][1]].text(40))
        else:
            rep.ok('R14f', b, fn, what, 'skipped degrees: %s' % (', '.join(skipped) or 'none'))


def _cmp(a, op, b):
    return {'<': a < b, '<=': a <= b, '>': a > b, '>=': a >= b, '==': a == b, '!=': a != b}[op]


def check_candidate_record(rep, prog):
    """R14h: the candidate record keeps what it is constructed from without loss: its weight in the weight type (the recorded weight is the
    sort key of the first-found lookup and must equal the true weight of the circuit), its tree number in a type as wide as the tree count.
    Any narrowing conversion in the constructor's member initialisers is the witness (double -> float merges candidates that differ by less
    than the float spacing: the heavier of two near-ties can be selected)."""
    what = 'CandidateCycle stores tree, edge and weight without a narrowing conversion'
    n = 0
    for fn in prog.functions:
        fr = fn.fref
        if fn.implicit or not fr.get('ctor') or (fr.get('rec') or '') != 'parmcb::CandidateCycle' or fr.get('copy_ctor') or fr.get('move_ctor'):
            continue
        n += 1
        bad = None
        for ci in fn.ctor_inits:
            if 'node' not in ci or 'field' not in ci:
                continue
            for x in [ci['node']] + list(ci['node'].walk()):
                if x.k == 'ImplicitCastExpr' and x.j.get('ck') in ('FloatingCast', 'IntegralCast', 'FloatingToIntegral') and x.c:
                    tt, ft = prog.type(x.j.get('t')) or {}, prog.type(x.c[0].strip().j.get('t')) or {}
                    order = {'float': 32, 'double': 64, 'long double': 80, 'unsigned char': 8, 'char': 8, 'short': 16, 'unsigned short': 16, 'int': 32, 'unsigned int': 32,
                             'long': 64, 'unsigned long': 64, 'long long': 64, 'unsigned long long': 64}
                    wt = order.get((tt.get('canon') or '').replace('const ', '').strip())
                    wf = order.get((ft.get('canon') or '').replace('const ', '').strip())
                    if x.j.get('ck') == 'FloatingToIntegral' or (wt is not None and wf is not None and wt < wf):
                        bad = (ci, ft.get('canon'), tt.get('canon'))
        if bad:
            rep.violation('R14h', bad[0]['node'], fn, what, 'member `%s` is initialised through a conversion from %s to %s: candidates whose weights differ by less than the spacing of the '
                          'narrower type get the same recorded weight, and the recorded weight is no longer the weight of the circuit' % (
                              prog.vars[bad[0]['field']]['name'], bad[1], bad[2]), key='R14h|%s|narrow' % fn.g)
        else:
            rep.ok('R14h', fn.body, fn, what)
    return n


def check_label_folding(rep, prog):
    """R12a (exact sets): the last rung of the label comparison is decided by the *exact* sets of vertex indices.  A bit mask built with
    `1 << (index % 64)` (or `& 63`) folds different vertices onto one bit: beyond 64 vertices a common vertex can hide the smallest non-common
    one, trees of different roots then disagree and the isometric filter drops a needed circuit."""
    what = 'the vertex sets of the labels are compared exactly (no index folded modulo a word size)'
    n = 0
    for fn in prog.functions:
        if fn.implicit or fn.body is None and not fn.ctor_inits:
            continue
        if 'lex_dijkstra' not in fn.file or not ('LexDistance' in fn.g):
            continue
        for x in fn.walk():
            if x.k == 'BinaryOperator' and x.op == '<<' and len(x.c) == 2:
                rhs = x.c[1].strip_all()
                fold = [y for y in [rhs] + list(rhs.walk()) if y.k == 'BinaryOperator' and y.op in ('%', '&') and y.c[1].strip_all().cv is not None and
                        ex.var_of(y.c[0]) is not None]
                if fold:
                    n += 1
                    rep.violation('R12a', x, fn, what, '`%s` maps a vertex index onto one of %s bits: two vertices whose indices agree modulo that number are indistinguishable in the '
                                  'mask, so the rung that should find the smallest non-common vertex can be decided by a common one' % (x.text(40), fold[0].c[1].text(6)),
                                  key='R12a|%s|folded-index' % fn.g)
    return n


def check_candidate_completeness(rep, prog):
    """R14g: create_candidate_cycles looks at every edge it is given: a return in front of the edge loop may only fire when the tree
    cannot close any cycle.  `root has fewer than two children` is not such a condition: a non-tree edge incident to the root closes a
    cycle through it although the whole tree hangs below one child (first-in-path of the root is the root itself)."""
    what = 'create_candidate_cycles reaches its edge loop whenever the root has a child'
    n = 0
    for fn in prog.functions:
        if fn.implicit or fn.body is None or not fn.g.endswith('SPTree::create_candidate_cycles') or fn.cfg is None:
            continue
        sites = [c for c in fn.walk() if c.k == 'CXXMemberCallExpr' and c.callee and c.callee['name'] in ('emplace_back', 'push_back') and
                 'CandidateCycle' in ((prog.base_type(c.object_arg().strip_all().j.get('t')) or {}).get('canon') or '')]
        loops = [s_.enclosing('ForStmt', 'WhileStmt', 'CXXForRangeStmt') for s_ in sites]
        loops = [l_ for l_ in loops if l_ is not None]
        if not loops:
            continue        # the forwarding overload
        n += 1
        lp = loops[0]
        head = lp.cond if lp.cond is not None else lp
        probs, und = [], []
        for r in ex.returns_of(fn):
            if lp.is_ancestor_of(r) or fn.cfg.reaches(head, r):
                continue
            for (c, pol) in ex.ast_conditions(r):
                verdict = None
                for x in [c.strip_all()] + list(c.walk()):
                    cnt = None
                    if x.k == 'BinaryOperator' and x.op in ('<', '<=', '>', '>=', '==', '!=') and len(x.c) == 2:
                        l_, r_, op = x.c[0].strip_all(), x.c[1].strip_all(), x.op
                        if r_.cv is None and l_.cv is not None:
                            l_, r_ = r_, l_
                            op = {'<': '>', '<=': '>=', '>': '<', '>=': '<=', '==': '==', '!=': '!='}[op]
                        if l_.k == 'CXXMemberCallExpr' and l_.callee and l_.callee['name'] == 'size' and r_.cv is not None and 'children' in l_.text(80):
                            cnt = lambda k_, op=op, r_=r_: _cmp(k_, op, r_.cv)
                    elif x.k == 'CXXMemberCallExpr' and x.callee and x.callee['name'] == 'empty' and 'children' in x.text(80):
                        cnt = lambda k_: k_ == 0
                    if cnt is not None:
                        fires = [k_ for k_ in (0, 1, 2, 3) if bool(cnt(k_)) == pol]
                        verdict = 'bad' if 1 in fires or 2 in fires or 3 in fires else 'ok'
                        if verdict == 'bad':
                            probs.append('the return at line %d is taken when the root has %d child(ren) (`%s`): a non-tree edge incident to the root (a heavy chord of a '
                                         'light path) still closes a cycle through it, and that candidate is lost' % (r.line, [k_ for k_ in fires if k_ > 0][0], c.text(40)))
                        break
                if verdict is None:
                    und.append('return at line %d under `%s`' % (r.line, c.text(40)))
        if probs:
            rep.violation('R14g', fn.body, fn, what, '; '.join(probs), key='R14g|%s|early-return' % fn.g)
        elif und:
            rep.undecided('R14g', fn.body, fn, what, 'early ' + und[0] + ': not in the idiom table')
        else:
            rep.ok('R14g', fn.body, fn, what, 'no return in front of the edge loop')
    return n


def check_program(rep, prog):
    n = 0
    for fn in prog.functions:
        if fn.implicit or fn.body is None or not (fn.file.startswith(env.REPO + '/include') or fn.file.startswith(env.WITNESS + '/positive')):
            continue
        for s in fn.walk():
            if s.k == 'CXXMemberCallExpr' and s.callee and s.callee['name'] == 'emplace_back':
                o = s.object_arg()
                ot = prog.base_type(o.strip_all().j.get('t')) if o is not None else None
                elem = None
                for ta in (ot or {}).get('targs', []) or []:
                    if isinstance(ta, int):
                        elem = prog.types[ta]
                        break
                ename = (elem or {}).get('rec') or ''
                if ename in ('parmcb::CandidateCycle', 'parmcb::SerializableCandidateCycle'):
                    n += 1
                    kind = 'fresh' if fn.g.startswith('parmcb::SPTree::') else 'reemit'
                    check_site(rep, prog, fn, s, s.args(), kind)
    # R14c provenance of the sub-collections
    for fn in prog.functions:
        if fn.implicit or fn.body is None:
            continue
        if fn.g == 'parmcb::detail::FVSCyclesBuilder::operator()':
            what = 'the FVS collection consists of create_candidate_cycles() of trees rooted at the feedback vertices only'
            fvs_out = None
            for c in fn.walk():
                if c.k == 'CallExpr' and c.callee and c.callee['g'] == 'parmcb::greedy_fvs' and len(c.args()) == 2:
                    d = c.args()[1].strip_all()
                    if d.k == 'CallExpr' and d.callee and d.callee['name'] == 'back_inserter':
                        fvs_out = ex.var_of(d.args()[0])
            roots_ok = False
            wrong, unrec = [], []

            def is_tree_vec(o):
                t = prog.base_type(o.strip_all().j.get('t')) if o is not None else None
                return 'SPTree' in ((t or {}).get('canon') or '')
            sites = [c for c in fn.walk() if c.k == 'CXXMemberCallExpr' and c.callee and c.callee['name'] in ('emplace_back', 'push_back') and
                     is_tree_vec(c.object_arg())]
            for c in sites:
                lp = c.enclosing('CXXForRangeStmt', 'ForStmt', 'WhileStmt')
                root = c.args()[4] if len(c.args()) == 5 else None
                if root is None or lp is None:
                    unrec.append('tree appended at line %d in a form outside the idiom list' % c.line)
                    continue
                if lp.k == 'CXXForRangeStmt' and lp.role('range') is not None and fvs_out is not None and ex.refs_var(lp.role('range'), fvs_out):
                    lv = [d.decl_id for d in lp.role('loopvar').walk() if d.k == 'VarDecl']
                    if lv and ex.var_of(root) == lv[0]:
                        roots_ok = True
                        continue
                hdr = [x for x in lp.walk() if lp.body is None or not lp.body.is_ancestor_of(x)]
                if any(x.k == 'CallExpr' and x.callee and x.callee['g'] == 'boost::vertices' for x in hdr):
                    wrong.append('a tree is rooted at every vertex of the graph (line %d), not only at the feedback vertices' % c.line)
                else:
                    unrec.append('root `%s` of the tree appended at line %d is not traced to the greedy_fvs output' % (root.text(20), c.line))
            # helpers: append_trees(g, w, first, last, trees) whose body appends a tree rooted at *it for it in [first, last)
            srcs = [c for c in fn.walk() if c.k == 'CXXMemberCallExpr' and c.callee and c.callee['name'] == 'insert' and len(c.args()) == 3]
            cc_calls = [c for c in fn.walk() if c.k == 'CXXMemberCallExpr' and c.callee and c.callee['name'] == 'create_candidate_cycles']
            cand_ok = bool(cc_calls) and len(srcs) == 1
            for c in fn.walk():
                if c.k != 'CallExpr' or not c.callee or not c.callee.get('in_repo') or c.callee_id is None or c.callee['g'] == 'parmcb::greedy_fvs':
                    continue
                hf = prog.fn_of_fref(c.callee_id)
                if hf is None or hf.body is None:
                    continue
                if any(is_tree_vec(a) for a in c.args()):
                    hsites = [x for x in hf.walk() if x.k == 'CXXMemberCallExpr' and x.callee and x.callee['name'] in ('emplace_back', 'push_back') and
                              is_tree_vec(x.object_arg())]
                    for x in hsites:
                        rng = _iterator_range_root(hf, x)
                        if rng is None:
                            unrec.append('helper `%s` appends trees in a form outside the idiom list' % hf.g)
                            continue
                        pb, pe = rng
                        ab, ae = c.args()[pb].strip_all(), c.args()[pe].strip_all()
                        if ab.k == 'CXXMemberCallExpr' and ae.k == 'CXXMemberCallExpr' and ab.callee['name'] in ('begin', 'cbegin') and \
                                ae.callee['name'] in ('end', 'cend') and ex.var_of(ab.object_arg()) == fvs_out and ex.var_of(ae.object_arg()) == fvs_out and fvs_out is not None:
                            roots_ok = True
                        else:
                            unrec.append('the root range handed to `%s` is not [begin, end) of the greedy_fvs output' % hf.g)
                    hcc = [x for x in hf.walk() if x.k == 'CXXMemberCallExpr' and x.callee and x.callee['name'] == 'create_candidate_cycles']
                    hins = [x for x in hf.walk() if x.k == 'CXXMemberCallExpr' and x.callee and x.callee['name'] == 'insert' and len(x.args()) == 3]
                    if hcc and len(hins) == 1 and not cand_ok:
                        lp = hcc[0].enclosing('CXXForRangeStmt')
                        tv = [ex.var_of(a) for a in c.args() if is_tree_vec(a)]
                        if lp is not None and lp.role('range') is not None and any(ex.refs_var(lp.role('range'), hf.param_ids[i]) for i, a in enumerate(c.args())
                                                                                   if i < len(hf.param_ids) and is_tree_vec(a)):
                            cand_ok = True
            if wrong:
                rep.violation('R14c', fn.body, fn, what, '; '.join(wrong), key='R14c|%s|provenance' % fn.g)
            elif roots_ok and cand_ok and not unrec:
                rep.ok('R14c', fn.body, fn, what, 'roots = output of greedy_fvs; candidates = tree.create_candidate_cycles()')
            elif not sites and not unrec and not roots_ok and fvs_out is not None and not [c for c in fn.walk() if c.k == 'CallExpr' and c.callee and c.callee.get('in_repo')
                                                                                           and c.callee['g'] != 'parmcb::greedy_fvs' and any(is_tree_vec(a) for a in c.args())]:
                rep.violation('R14c', fn.body, fn, what, 'no tree is built for the feedback vertices', key='R14c|%s|provenance' % fn.g)
            else:
                rep.undecided('R14c', fn.body, fn, what, '; '.join(unrec) or 'trees / candidates are built in a form outside the idiom list')
        if fn.g == 'parmcb::detail::HortonCyclesBuilder::operator()':
            check_horton_roots(rep, prog, fn)
        if fn.g == 'parmcb::detail::ISOCyclesBuilder::operator()':
            what = 'the isometric collection re-emits (tree, edge) pairs read back from guarded Horton candidates only'
            puts = [c for c in fn.walk() if c.k == 'CallExpr' and c.callee and c.callee['g'] == 'boost::put' and len(c.args()) == 3]
            good = True
            detail = []
            undecided_src = []
            for p in puts:
                val = p.args()[2].strip_all()
                if val.k == 'CXXMemberCallExpr' and val.callee and val.callee['name'] in ('tree', 'edge'):
                    src = ex.var_of(val.object_arg())
                    lp = p.enclosing('CXXForRangeStmt')
                    if lp is not None and src in [d.decl_id for d in lp.role('loopvar').walk() if d.k == 'VarDecl']:
                        continue
                    # `const CandidateCycle &cc = allcycles[pos];` in an index loop: the same element under another loop form
                    al = ex.alias_of(fn, val.object_arg()) if val.object_arg() is not None else None
                    if al is not None and ((al.k == 'CXXOperatorCallExpr' and al.op in ('[]', '*')) or (al.k == 'CXXMemberCallExpr' and al.callee and al.callee['name'] == 'at')) and \
                            'CandidateCycle' in ((prog.base_type(al.j.get('t')) or {}).get('canon') or ''):
                        continue
                    if 'CandidateCycle' in ((prog.base_type(val.object_arg().strip_all().j.get('t')) or {}).get('canon') or ''):
                        undecided_src.append('put at line %d reads `%s`' % (p.line, val.text(30)))
                        continue
                    good = False
                    detail.append('put at line %d' % p.line)
                elif val.cv is not None:
                    continue
                else:
                    t = prog.base_type(val.j.get('t')) or {}
                    if 'edge_desc_impl' in (t.get('canon') or '') or t.get('int'):
                        good = False
                        detail.append('`%s`' % p.text(40))
            if good and puts and undecided_src:
                rep.undecided('R14c', fn.body, fn, what, undecided_src[0] + ': a candidate that is not traced to the Horton list')
            elif good and puts:
                rep.ok('R14c', fn.body, fn, what, '%d property writes, all from cc.tree()/cc.edge() of the Horton list' % len(puts))
            else:
                rep.violation('R14c', fn.body, fn, what, 'tree/edge properties are written from something else: %s' % detail, key='R14c|%s|provenance' % fn.g)
    # R14d root weight
    for fn in prog.functions:
        fr = fn.fref
        if fr.get('rec') == 'parmcb::SPNode' and fr.get('ctor') and not fn.implicit and not fr.get('copy_ctor') and not fr.get('move_ctor') and \
                len(fn.param_ids) in (1, 2) and not [ci for ci in fn.ctor_inits if 'field' in ci and prog.vars[ci['field']]['name'] in ('_pred', 'pred') and 'node' in ci and
                                                     ex.var_of(ci['node']) in fn.param_ids]:
            what = 'the root node of a shortest-path tree has weight zero'
            for ci in fn.ctor_inits:
                if 'field' in ci and prog.vars[ci['field']]['name'] in ('_weight', 'weight') and 'node' in ci:
                    v = ci['node'].strip_all()
                    zero = v.cv == 0 or (v.k in ('CXXScalarValueInitExpr', 'CXXTemporaryObjectExpr', 'CXXFunctionalCastExpr') and not v.c) or \
                        (v.k == 'FloatingLiteral' and v.value == 0.0)
                    if zero:
                        rep.ok('R14d', ci['node'], fn, what, 'root constructor value-initialises the weight')
                    elif ex.var_of(v) in fn.param_ids and source_distance_written(prog):
                        rep.ok('R14d', ci['node'], fn, what, 'root weight = dist[source], which lex_dijkstra sets to zero')
                    elif ex.var_of(v) in fn.param_ids:
                        # the caller must pass a zero: lex_dijkstra never writes the distance of the source, so dist[source] is not it
                        rep.violation('R14d', ci['node'], fn, what,
                                      'the root constructor stores the weight it is given; SPTree::initialize passes dist[source], which the '
                                      'Dijkstra run leaves at its initial "infinity": every candidate through the root records an infinite weight',
                                      key='R14d|%s|root-weight' % fn.g)
                    else:
                        rep.undecided('R14d', ci['node'], fn, what, 'root weight initialiser not recognised')
    return n


LOOPS = ('ForStmt', 'WhileStmt', 'CXXForRangeStmt', 'DoStmt')


def _is_sptree(prog, t):
    bt = prog.base_type(t) or {}
    return (bt.get('rec') or '').split('<')[0] == 'parmcb::SPTree'


def r14e(rep, prog):
    """the id handed to a tree equals the position the tree gets in its container: candidates carry the id (cc.tree()) and every
    consumer indexes the container with it (trees[cc.tree()])"""
    n = 0
    for fn in prog.functions:
        if fn.implicit or not (fn.file.startswith(env.REPO + '/include') or fn.file.startswith(env.WITNESS)):
            continue
        cfg = fn.cfg
        for site in fn.walk():
            idarg = cont = contname = None
            if site.k == 'CXXMemberCallExpr' and site.callee and site.callee['name'] == 'emplace_back' and site.object_arg() is not None:
                ot = prog.base_type(site.object_arg().strip_all().j.get('t')) or {}
                tas = [ta for ta in (ot.get('targs') or []) if isinstance(ta, int)]
                if tas and _is_sptree(prog, tas[0]) and len(site.args()) >= 2:
                    idarg, cont, contname = site.args()[0], ex.key(site.object_arg()), site.object_arg().text(20)
            elif site.k in ex.CTOR_KINDS and site.callee and site.callee.get('ctor') and not site.callee.get('copy_ctor') and \
                    not site.callee.get('move_ctor') and _is_sptree(prog, site.j.get('t')) and len(site.c) >= 2:
                up = site.up()
                if up is not None and up.k == 'VarDecl':
                    # a local tree that is pushed into a container afterwards
                    for m in fn.walk():
                        if m.k == 'CXXMemberCallExpr' and m.callee and m.callee['name'] in ('push_back', 'emplace_back') and m.args() and \
                                ex.var_of(m.args()[0]) == up.decl_id and m.object_arg() is not None:
                            idarg, cont, contname = site.c[0], ex.key(m.object_arg()), m.object_arg().text(20)
                    if idarg is None:
                        continue
                else:
                    continue
            if idarg is None:
                continue
            n += 1
            what = 'the id given to a shortest-path tree is the position of the tree in `%s` (consumers index the container with cc.tree())' % (contname,)
            a = idarg.strip_all()
            if a.k == 'CXXMemberCallExpr' and a.callee and a.callee['name'] == 'size' and a.object_arg() is not None and ex.key(a.object_arg()) == cont:
                rep.ok('R14e', site, fn, what, 'id is %s.size() at the time of insertion' % contname)
                continue
            v = ex.var_of(a)
            loop = site.enclosing(*LOOPS)
            if v is None or loop is None:
                rep.undecided('R14e', site, fn, what, 'id expression `%s` is outside the idiom table' % a.text(30))
                continue
            defs = ex.assignments_to(fn, v)
            inits = [(d, rhs) for (d, rhs) in defs if rhs is not None]
            incs = [d for (d, rhs) in defs if rhs is None]
            pc_site = guards_formula(cfg, site, lambda leaf: None)
            if len(inits) == 1 and inits[0][1].strip_all().cv == 0 and not loop.is_ancestor_of(inits[0][0]) and incs:
                # counter idiom: starts at 0, advanced exactly once per inserted tree
                probs = []
                if len(incs) != 1:
                    probs.append('the counter is modified at %d places' % len(incs))
                for d in incs:
                    s2 = d.strip_all() if hasattr(d, 'strip_all') else d
                    if not (d.k in ('UnaryOperator', 'CXXOperatorCallExpr') and d.op == '++'):
                        probs.append('`%s` is not an increment by one' % d.text(30))
                    if not loop.is_ancestor_of(d) or d.enclosing(*LOOPS) is not loop:
                        probs.append('the increment at line %d is not in the loop that inserts the trees' % d.line)
                        continue
                    pc_inc = guards_formula(cfg, d, lambda leaf: None)
                    eq, envv = ex.f_equiv(pc_inc, pc_site)
                    if not eq:
                        probs.append('the counter is advanced on iterations that insert no tree, or not on every iteration that inserts one '
                                     '(increment at line %d and insertion are under different conditions)' % d.line)
                if probs:
                    rep.violation('R14e', site, fn, what, '; '.join(probs) + ': ids and positions diverge, trees[cc.tree()] is then another tree',
                                  key='R14e|%s|counter' % fn.g)
                else:
                    rep.ok('R14e', site, fn, what, 'counter %s starts at 0 and is incremented exactly with every insertion' % prog.vars[v]['name'])
                continue
            if len(defs) == 1 and inits and loop.is_ancestor_of(inits[0][0]):
                rhs = inits[0][1].strip_all()
                is_index = (rhs.k == 'CXXOperatorCallExpr' and rhs.op == '[]') or (rhs.k == 'CallExpr' and rhs.callee and rhs.callee['g'] == 'boost::get')
                over_vertices = any(x.k == 'CallExpr' and x.callee and x.callee['g'] == 'boost::vertices' for x in loop.walk() if not (loop.body is not None and loop.body.is_ancestor_of(x)))
                if is_index and over_vertices:
                    first = None
                    body = loop.body
                    if body is not None:
                        first = body.c[0] if body.k == 'CompoundStmt' and body.c else body
                    pc_first = guards_formula(cfg, first, lambda leaf: None) if first is not None else None
                    if pc_first is not None and ex.f_equiv(pc_first, pc_site)[0]:
                        rep.ok('R14e', site, fn, what, 'id is the vertex index and a tree is inserted for every vertex, in index order')
                        rep.assume('vertex iteration order equals vertex index order (vecS vertex storage)')
                    else:
                        rep.violation('R14e', site, fn, what,
                                      'the id is the index of the root vertex (`%s`) but a tree is not inserted for every vertex (the insertion is '
                                      'conditional): after the first skipped vertex ids and positions diverge, trees[cc.tree()] is then another tree '
                                      'or out of bounds' % rhs.text(30), key='R14e|%s|vertex-index' % fn.g)
                    continue
            rep.undecided('R14e', site, fn, what, 'id expression `%s` is outside the idiom table' % a.text(30))
    return n


def check_live_references(rep, prog):
    """R07b restricted to the tree / candidate classes: the graph, weight map and index map a tree reads are references"""
    from . import c07
    sub = type(rep)(rep.prop, rep.tier)
    c07.r07b_params(sub, prog)
    k = 0
    for i in sub.instances.values():
        if 'SPTree' in i.what or 'SPNode' in i.what or 'Candidate' in i.what or i.function.startswith('positive::'):
            rep.add('R07b', i.site, i.function, i.what, i.status, i.detail, key=i.key)
            k += 1
    return k


def run(rep, tier):
    rep.rule('R14e', 'tree ids equal container positions', floor=4)
    rep.rule('R07b', 'reference members of the tree classes are bound to storage that outlives the constructor', floor=3)
    rep.rule('R14a', 'guards of every candidate construction site', floor=2)
    for r_, d_ in (('R12c', 'update sites of lex_dijkstra (premise: the trees are shortest-path trees with consistent labels)'), ('R12d', 'label extension'),
                   ('R12e', 'tree nodes and links follow the predecessor map'), ('R02h', 'relaxation contract of lex_dijkstra'),
                   ('R13a', 'greedy_fvs bookkeeping (premise of the FVS collection: its roots form a feedback vertex set)'), ('R13b', 'discard threshold'),
                   ('R13c', 'neighbour updates'), ('R13d', 'emission'), ('R13e', 'emission loop bound'), ('R13f', 'no early exit'), ('R13g', 'front/pop pairing')):
        rep.rule(r_, d_, floor=0)
    rep.rule('R14b', 'recorded weight formula', floor=2)
    rep.rule('R14c', 'FVS / ISO collections are sub-collections by provenance', floor=2)
    rep.rule('R14h', 'the candidate record stores its weight and tree number without narrowing', floor=1)
    rep.rule('R14g', 'create_candidate_cycles has no early return that loses candidates through the root', floor=1)
    rep.rule('R07t', 'the set algorithms of the label comparator run over sorted ranges (consistent trees across roots)', floor=1)
    rep.rule('R14f', 'Horton\'s collection has a tree for every vertex of degree >= 2', floor=1)
    rep.rule('R14d', 'root node weight is zero', floor=1)
    rep.rule('R12b', 'first-in-path labels for every visited node including the root', floor=1)
    rep.rule('R12a', 'lexicographic comparator consistency', floor=1)
    tus = [env.witness_tu()]
    if tier == 'thorough':
        tus += [t for t in env.repo_tus() if 'mcb' in os.path.basename(t) or 'stats' in os.path.basename(t)]
    progs = env.extract(tus, 'full')
    rep.saw_programs(progs.values())
    n = 0
    from . import c07 as _c07
    rep.rule('R07k', 'numeric_limits<T>::infinity() only for floating-point T (0 for integral weight types: tree distances and candidate weights collapse)', floor=0)
    rep.rule('R01f', 'no candidate is removed from a collection unless it is an exact (tree, edge) duplicate', floor=0)
    for prog in progs.values():
        _c07.r07k(rep, prog, only_files=('lex_dijkstra', 'detail/util.hpp', 'sptrees', 'cycles.hpp', 'fvs.hpp'))
        _c07.r07t(rep, prog, only_files=('lex_dijkstra', 'sptrees', 'cycles.hpp'))
        check_no_candidate_removed(rep, prog)
        check_candidate_completeness(rep, prog)
        check_candidate_record(rep, prog)
        check_label_folding(rep, prog)
        n += check_program(rep, prog)
        r14e(rep, prog)
        check_live_references(rep, prog)
        c12.check_first_in_path(rep, prog)
        c12.check_comparators(rep, prog)
        # premises of the collections: the trees behind the candidates (C12's rules) and the root set of the FVS collection (C13's rules)
        c12.check_lex_updates(rep, prog)
        c12.check_combine(rep, prog)
        c12.check_tree_construction(rep, prog)
        from . import c13, search
        sub = type(rep)(rep.prop, rep.tier)
        search.check_relaxation(sub, prog)
        for i in sub.instances.values():
            if 'lex_dijkstra' in i.function:
                rep.add(i.rule, i.site, i.function, i.what, i.status, i.detail, key=i.key)
        sub13 = type(rep)(rep.prop, rep.tier)
        for fn13 in prog.fns(c13.FN):
            if c13.is_forwarder(fn13):
                continue
            c13.check(sub13, prog, fn13)
        for i in sub13.instances.values():
            rep.add(i.rule, i.site, i.function, i.what, i.status, i.detail, key=i.key)
    if n == 0:
        rep.analysis_broken('no candidate construction site found (anchor vanished)')
    pos = os.path.join(env.WITNESS, 'positive', 'c14_candidates.cc')
    try:
        pp = env.extract([pos], 'full', ('first:-I' + os.path.join(env.WITNESS, 'positive', 'broken_include3'),))[pos]
        prep = type(rep)(rep.prop, rep.tier)
        check_program(prep, pp)
        c12.check_first_in_path(prep, pp)
        c12.check_comparators(prep, pp)
        r14e(prep, pp)
        check_live_references(prep, pp)
        for r in ('R14a', 'R14b', 'R14c', 'R14d', 'R14e', 'R07b', 'R12b', 'R12a'):
            rep.positive(r, 'witness/positive/c14_candidates.cc', any(i.status == 'violation' and i.rule == r for i in prep.instances.values()))
    except env.AnalysisBroken as e:
        rep.analysis_broken('positive example c14_candidates.cc does not parse: ' + str(e)[:300])
    rep.assume('the predecessor structure computed by lex_dijkstra is a tree with exact distances (C12, not decided); given that, the R14a guards '
               'make each candidate a simple cycle through the root')
    rep.note('NOT claimed: that each collection contains a minimum cycle basis; isometric-class bookkeeping beyond provenance')
