"""C11 - demo programs gate bad input, terminate, and print the library's result.

R11a  in every demo main each validator call on the graph read from the file dominates every call
      that reaches library algorithm code; from its rejecting edge every path reaches a non-zero
      return/exit without passing such a call, and writes a diagnostic.           (A1)
R11b  under MPI neither the validator calls nor any exit of main is control dependent on the rank. (A2/A7 ii)
R11c  every exit reachable after an algorithm call returns 0; the value printed after
      "MCB weight = " is definitely assigned from a library entry point.          (A1)
"""
import os

from lib import env, ex
from . import common, c20

TITLE = 'C11: dominance / reachability / control-dependence rules on the CFG of each demo main.'


def graph_var(main):
    for n in main.walk():
        if ex.is_call(n, 'parmcb::read_dimacs_from_file') and len(n.args()) >= 2:
            return ex.var_of(n.args()[1]), n
    return None, None


def algo_calls(prog, main, algo):
    res = []
    for n in main.walk():
        ci = n.j.get('callee')
        if ci is None or n.k not in ex.CALL_KINDS + ex.CTOR_KINDS:
            continue
        fr = prog.frefs[ci]
        if fr['g'] in common.NON_ALGO:
            continue
        if ci in algo:
            res.append(n)
    return res


def exit_kind(prog, cfg, blk):
    """classify how a block leaves the function: ('return', value|None) | ('exit', value|None) |
    ('assert',) | ('throw',) | ('fallthrough',) | None if exit is not a successor"""
    if cfg.exit not in [s for s in blk.succ if s is not None]:
        return None
    fn = cfg.fn
    nodes = [fn.nodes.get(e if e >= 0 else -2 - e) for e in blk.elems if e is not None and (e >= 0 or e <= -2)]
    nodes = [n for n in nodes if n is not None]
    for n in reversed(nodes):
        if n.k == 'ReturnStmt':
            v = n.c[0].strip_all().cv if n.c else None
            if v is None and n.c:
                v = n.c[0].cv
            return ('return', v, n)
        if n.k == 'CXXThrowExpr':
            return ('throw', None, n)
        if n.k in ex.CALL_KINDS and n.callee and n.callee.get('noreturn'):
            nm = n.callee['name']
            if nm in ('__assert_fail', '__assert_perror_fail', '__assert'):
                return ('assert', None, n)
            args = n.args()
            v = args[0].strip_all().cv if args else None
            if v is None and args:
                v = args[0].cv
            return ('exit', v, n)
    return ('fallthrough', None, None)


def has_diagnostic(cfg, blocks):
    fn = cfg.fn
    for b in blocks:
        for e in cfg.blocks[b].elems:
            if e is None or e < 0:
                continue
            n = fn.nodes.get(e)
            if n is not None and n.k == 'CXXOperatorCallExpr' and n.op == '<<':
                root = ex.stream_root(n)
                if ex.is_std_stream(root):
                    return True
    return False


def find_branch_on(cfg, vcall):
    """branch block whose condition is a formula over the single atom `vcall`; returns (block, f)"""
    fn = cfg.fn
    holders = {vcall.i}
    # variables initialised from the validator call
    up = vcall.top_transparent().parent
    holder_var = None
    if up is not None and up.k == 'VarDecl':
        holder_var = up.decl_id
    elif up is not None and up.k == 'BinaryOperator' and up.op == '=':
        holder_var = ex.var_of(up.c[0])

    def is_v(s):
        return s.i == vcall.i or (holder_var is not None and ex.var_of(s) == holder_var and len(ex.assignments_to(fn, holder_var)) == 1)

    def atomize(leaf):
        s = leaf.strip_all()
        if is_v(s):
            return ex.f_atom('V')
        # comparison of the (pointer / integer) result with a null constant
        if s.k == 'BinaryOperator' and s.op in ('==', '!='):
            a, b = s.c[0].strip_all(), s.c[1].strip_all()
            for x, y in ((a, b), (b, a)):
                if is_v(x) and (y.cv == 0 or y.k in ('CXXNullPtrLiteralExpr', 'GNUNullExpr')):
                    return ex.f_atom('V') if s.op == '!=' else ex.f_not(ex.f_atom('V'))
        return None

    for b in cfg.branch_blocks():
        c = cfg.effective_cond(b)
        if c is None:
            continue
        f = ex.formula(c, atomize)
        if f is not None and ex.f_atoms(f) == ['V']:
            return b, f
    return None, None


def helper_reports(prog, hf, vname, pix):
    """'ok' when the result of helper hf is truthy whenever validator vname holds for its parameter number pix and falsy when no
    validator holds; otherwise a reason"""
    import itertools
    if pix >= len(hf.param_ids):
        return 'graph is not passed as a plain parameter'
    pv = hf.param_ids[pix]
    cfg = hf.cfg
    if cfg is None:
        return 'no control-flow graph'

    def atomize(leaf):
        s = leaf.strip_all()
        for vn in common.VALIDATORS:
            if ex.is_call(s, vn) and s.args() and ex.var_of(s.args()[0]) == pv:
                return ex.f_atom(vn)
        return None
    outcomes = []
    for r in ex.returns_of(hf):
        if not r.c:
            return 'returns nothing'
        v = r.c[0].strip_all()
        if v.k == 'StringLiteral' or (v.cv is not None and v.cv != 0):
            val = ex.TRUE
        elif v.cv == 0 or v.k in ('CXXNullPtrLiteralExpr', 'GNUNullExpr'):
            val = ex.FALSE
        else:
            val = ex.formula(v, atomize)
            if val is None:
                return 'returned value `%s` not understood' % v.text(30)
        outcomes.append((ex.path_condition(cfg, r, atomize), val))
    atoms = []
    for (pc, val) in outcomes:
        for a in ex.f_atoms(pc) + ex.f_atoms(val):
            if a not in atoms:
                atoms.append(a)
    if any(isinstance(a, tuple) for a in atoms):
        return 'the helper branches on something else than the validators'
    if vname not in atoms:
        return 'the validator result does not influence the helper result'
    for vals in itertools.product((False, True), repeat=len(atoms)):
        e = dict(zip(atoms, vals))
        res = [ex.f_eval(val, e) for (pc, val) in outcomes if ex.f_eval(pc, e)]
        if len(set(res)) != 1:
            return 'result not determined by the validators'
        if e[vname] and not res[0]:
            return 'falsy result although %s holds' % vname.split('::')[-1]
        if not any(vals) and res[0]:
            return 'truthy result although no validator holds'
    return 'ok'


def check_k_argument(rep, prog, main):
    """R11g: the k handed to the approximate entry points is the k the user asked for or at least never falls below 1: the library throws for
    k < 1 and the demo does not catch it (abort, status 134, no weight printed).  Every re-assignment of the variable after it was read
    from the option is evaluated in its C++ arithmetic over small graphs (0..5 vertices, a valid file can declare any of these) and requested values."""
    what = 'the k passed to the approximate algorithms is never reduced below 1 for a valid file'
    calls = [c for c in main.walk() if c.k == 'CallExpr' and c.callee and c.callee['g'].startswith('parmcb::approx_mcb_sva_') and len(c.args()) >= 3]
    if not calls:
        return 0
    kv = ex.var_of(calls[0].args()[2])
    if kv is None:
        rep.undecided('R11g', calls[0], main, what, 'k argument `%s` is not a variable' % calls[0].args()[2].text(30))
        return 1
    gv, _rd = graph_var(main)
    cfg = main.cfg
    defs = ex.assignments_to(main, kv)
    from_opt = [d for (d, rhs) in defs if rhs is not None and common.option_atom(rhs) == ('opt', 'k')]
    later = [(d, rhs) for (d, rhs) in defs if d.k != 'VarDecl' and d not in from_opt and any(cfg.reaches(d, c) for c in calls)]
    bad = und = None
    for (d, rhs) in later:
        if rhs is None:
            und = d
            continue
        for req in (2, 3, 7, 1000):
            for n_ in range(0, 6):
                def bind(x_, req=req, n_=n_):
                    if ex.var_of(x_) == kv:
                        return req
                    if x_.k == 'CallExpr' and x_.callee and x_.callee['name'] in ('num_vertices', 'num_edges') and x_.args() and ex.var_of(x_.args()[0]) == gv:
                        return n_ if x_.callee['name'] == 'num_vertices' else max(0, n_ - 1)
                    return None
                try:
                    val = ex.ceval(rhs, bind)
                except ex.Unknown:
                    und = d
                    break
                if val < 1 and bad is None:
                    bad = (d, req, n_, val)
            if und is d:
                break
    if bad:
        rep.violation('R11g', bad[0], main, what, '`%s` (line %d) makes k = %d for --k=%d on a file with %d vertices: the library rejects k < 1 with an exception the demo does not catch '
                      '(abort instead of exit status 0 and a weight)' % (bad[0].text(50), bad[0].line, bad[3], bad[1], bad[2]), key='R11g|%s|k' % os.path.basename(prog.tu))
    elif und is not None:
        rep.undecided('R11g', und, main, what, '`%s` re-assigns k in a way that is not evaluable' % und.text(50))
    else:
        rep.ok('R11g', calls[0], main, what, '%d call(s); k is the option value' % len(calls))
    return 1


PARALLEL_OK = ('boost::vecS', 'boost::listS', 'boost::slistS', 'boost::multisetS', 'boost::hash_multisetS')


def check_graph_type(rep, prog, main, rule='R11f'):
    """the graph the file is read into keeps parallel edges: the reader calls add_edge once per `e` line and ignores its
    success flag, so an out-edge selector that rejects duplicates (setS, hash_setS) silently merges repeated pairs - the graph no
    longer has one edge per line, the last weight wins and has_multiple_edges can never report the file"""
    what = 'the graph type filled by read_dimacs_from_file stores parallel edges (one edge per `e` line)'
    gvar, rd = graph_var(main)
    if gvar is None:
        return 0
    t = prog.base_type(prog.vars[gvar].get('ty')) or {}
    canon = t.get('canon') or ''
    if not canon.startswith('boost::adjacency_list<'):
        rep.undecided(rule, rd, main, what, 'the graph is a `%s`, not an adjacency_list' % canon[:60])
        return 1
    first = canon[len('boost::adjacency_list<'):].split(',')[0].strip()
    if first in PARALLEL_OK:
        rep.ok(rule, rd, main, what, 'OutEdgeList = %s' % first)
    elif first in ('boost::setS', 'boost::hash_setS', 'boost::mapS', 'boost::hash_mapS'):
        rep.violation(rule, rd, main, what, 'OutEdgeList = %s rejects a repeated vertex pair: add_edge returns the existing edge, the reader overwrites its weight, '
                      'and a file with multiple edges is accepted as a simple graph' % first, key='%s|%s|out-edge-list' % (rule, os.path.basename(prog.tu)))
    else:
        rep.undecided(rule, rd, main, what, 'OutEdgeList selector `%s` is not in the table' % first)
    return 1


def check_main(rep, prog, main, algo, pos=False):
    tu = os.path.basename(prog.tu)
    cfg = main.cfg
    gvar, rd = graph_var(main)
    if gvar is None:
        rep.analysis_broken('%s: main does not call parmcb::read_dimacs_from_file (anchor vanished)' % tu)
        return
    acalls = algo_calls(prog, main, algo)
    if not acalls:
        rep.analysis_broken('%s: main calls no library algorithm (anchor vanished)' % tu)
        return
    rank_vars = common.rank_vars_of(main)
    is_mpi = any(common.is_rank_call(n) for n in main.walk()) or any(
        'boost::mpi::communicator' in (prog.type(v.get('ty')) or {}).get('canon', '') for v in prog.vars
        if isinstance(v, dict) and v.get('kind') == 'local' and v.get('fn') == main.fref_id)

    for vname in common.VALIDATORS:
        vcalls = [n for n in main.walk() if ex.is_call(n, vname) and n.args() and ex.var_of(n.args()[0]) == gvar]
        what = '%s(graph) gates every algorithm call with a non-zero exit and a diagnostic' % vname.split('::')[-1]
        if not vcalls:
            # a helper of the driver that applies the validators to the graph and reports the outcome as its (truthy) result
            hv, hund = [], []
            for n in main.walk():
                if n.k == 'CallExpr' and n.callee and n.callee.get('in_repo') and n.callee_id is not None and \
                        any(ex.var_of(a) == gvar for a in n.args()):
                    hf = prog.fn_of_fref(n.callee_id)
                    if hf is None or hf.body is None or not [m for m in hf.walk() if ex.is_call(m, vname)]:
                        continue
                    verdict = helper_reports(prog, hf, vname, [ex.var_of(a) for a in n.args()].index(gvar))
                    (hv if verdict == 'ok' else hund).append((n, verdict))
            if hv:
                vcalls = [n for (n, _v) in hv]
            elif hund:
                rep.undecided('R11a', hund[0][0], main, what, 'the validator is applied inside the helper `%s`: %s' % (hund[0][0].callee['name'], hund[0][1]))
                continue
        if not vcalls:
            # the validator may be called from a lambda of the driver (a table of checks walked by a loop, a std::function): the call exists,
            # how its result steers the exit is outside the region-based reasoning
            in_lambda = None
            for n_ in main.walk():
                if n_.k == 'LambdaExpr':
                    for op_ in n_.j.get('lambda_ops', ()):
                        lf_ = prog.fn_of_fref(op_)
                        if lf_ is not None and lf_.body is not None and any(ex.is_call(m_, vname) for m_ in lf_.walk()):
                            in_lambda = n_
            if in_lambda is not None:
                rep.undecided('R11a', in_lambda, main, what, 'the validator is applied inside a lambda of the driver (`%s`): its use as a gate is not traced' % in_lambda.text(40))
                continue
            rep.violation('R11a', rd, main, what, 'the validator is never applied to the graph read from the file',
                          key='R11a|%s|%s|missing' % (tu, vname))
            continue
        for v in vcalls:
            problems = []
            blk, f = find_branch_on(cfg, v)
            if blk is None:
                rep.violation('R11a', v, main, what, 'the result of the validator is not the condition of any branch',
                              key='R11a|%s|%s|untested' % (tu, vname))
                continue
            reject_ix = 0 if ex.f_eval(f, {'V': True}) else 1
            rej = blk.succ[reject_ix]
            region = cfg.reachable_blocks(rej) if rej is not None else set()
            for a in acalls:
                pa = cfg.pos_of(a)
                if pa is not None and pa[0] in region:
                    problems.append('algorithm call %s (line %d) is reachable after the validator reported a bad graph' % (
                        a.callee['name'], a.line))
                if not cfg.dominates(v, a):
                    problems.append('validator does not dominate algorithm call %s (line %d)' % (a.callee['name'], a.line))
            for b in region:
                ek = exit_kind(prog, cfg, cfg.blocks[b])
                if ek is None:
                    continue
                if ek[0] in ('return', 'exit'):
                    if ek[1] is None:
                        problems.append('exit status at line %d is not a constant' % ek[2].line)
                    elif ek[1] == 0:
                        problems.append('rejected input exits with status 0 at line %d' % ek[2].line)
                elif ek[0] == 'fallthrough':
                    problems.append('rejected input falls off the end of main (status 0)')
            inner = region - {cfg.exit}
            if not has_diagnostic(cfg, inner):
                problems.append('no diagnostic is written on the rejecting path')
            # the rejecting arm may only record its verdict in a local (a code / flag) that a later branch acts upon: the region-based
            # reasoning above does not follow values
            carried = set()
            if rej is not None and any('reachable after' in p_ for p_ in problems):
                for e_ in cfg.blocks[rej].elems:
                    n_ = main.nodes.get(e_) if e_ is not None and e_ >= 0 else None
                    if n_ is not None and n_.k == 'BinaryOperator' and n_.op == '=' and ex.var_of(n_.c[0]) is not None and \
                            prog.vars[ex.var_of(n_.c[0])].get('kind') == 'local':
                        carried.add(ex.var_of(n_.c[0]))
                for _round in range(3):
                    for d_ in main.walk():
                        if d_.k == 'VarDecl' and d_.c and d_.decl_id not in carried and any(ex.refs_var(d_.c[0], cv_) for cv_ in carried):
                            carried.add(d_.decl_id)
                tested = [cv_ for cv_ in carried for b_ in cfg.branch_blocks()
                          if cfg.effective_cond(b_) is not None and ex.refs_var(cfg.effective_cond(b_), cv_)]
                if tested:
                    rep.undecided('R11a', v, main, what, 'the rejecting arm records its verdict in `%s`, which a later branch tests: values are not followed' % prog.vars[tested[0]]['name'])
                    continue
            if problems:
                rep.violation('R11a', v, main, what, '; '.join(sorted(set(problems))),
                              key='R11a|%s|%s' % (tu, vname))
            else:
                rep.ok('R11a', v, main, what, 'dominates %d algorithm call(s); rejecting region of %d block(s) exits non-zero' % (
                    len(acalls), len(inner)))
            # R11b
            if is_mpi:
                whatb = '%s is evaluated and acted upon by every rank' % vname.split('::')[-1]
                bad = [c for (c, pol, _b) in cfg.guards_of(v) if common.mentions_rank(c, rank_vars)]
                if bad:
                    rep.violation('R11b', v, main, whatb,
                                  'validator call is control dependent on the rank: `%s` (line %d)' % (bad[0].text(60), bad[0].line),
                                  key='R11b|%s|%s|rank-gated' % (tu, vname))
                else:
                    rep.ok('R11b', v, main, whatb)

    if is_mpi:
        # A7(ii): no exit of an MPI main may depend on the rank (environment teardown is collective)
        for b in cfg.blocks.values():
            ek = exit_kind(prog, cfg, b)
            if ek is None or ek[0] in ('assert', 'fallthrough') or ek[2] is None:
                continue
            n = ek[2]
            whatx = 'exit of an MPI main is taken by all ranks or none'
            badg = [(c, pol, gb) for (c, pol, gb) in cfg.guards_of(n) if common.mentions_rank(c, rank_vars)]
            bad = [c for (c, pol, gb) in badg]
            if bad:
                # harmful only if the ranks that do NOT take this exit go on to a collective operation (they would wait for the one that left);
                # when only local work follows on both sides, every rank reaches its own exit
                from . import c04
                collfns = c04.collective_functions(prog)
                later_coll = None
                for (c, pol, gb) in badg:
                    for s_ in gb.succ:
                        if s_ is None:
                            continue
                        for rb in cfg.reachable_blocks(s_):
                            for e_ in cfg.blocks[rb].elems:
                                x = main.nodes.get(e_) if e_ is not None and e_ >= 0 else None
                                if x is None:
                                    continue
                                for y in x.walk():
                                    if c04.is_collective(y) or (y.k in ex.CALL_KINDS and y.callee_id in collfns):
                                        later_coll = later_coll or y
                if later_coll is None:
                    rep.ok('R11b', n, main, whatx, 'the exit depends on the rank (`%s`) but no collective operation is reachable after that branch: every rank '
                           'finishes with local work only' % bad[0].text(40))
                else:
                    rep.violation('R11b', n, main, whatx,
                                  '%s is control dependent on the rank: `%s` (line %d); the other ranks continue into collectives (`%s`, line %d)' % (
                                      ek[0], bad[0].text(60), bad[0].line, later_coll.text(40), later_coll.line), key='R11b|%s|rank-exit' % tu)
            else:
                rep.ok('R11b', n, main, whatx)

    # R11c success path
    after = set()
    for a in acalls:
        pa = cfg.pos_of(a)
        if pa is not None:
            after |= cfg.reachable_blocks(pa[0])
    problems = []
    nexits = 0
    for b in after:
        ek = exit_kind(prog, cfg, cfg.blocks[b])
        if ek is None or ek[0] == 'assert':
            continue
        nexits += 1
        if ek[0] in ('return', 'exit') and ek[1] != 0:
            problems.append('exit after a completed algorithm has status %s at line %d' % (ek[1], ek[2].line))
        if ek[0] == 'throw':
            problems.append('throw after a completed algorithm at line %d' % ek[2].line)
    whatc = 'every exit after an algorithm call has status 0'
    if problems:
        rep.violation('R11c', main.body, main, whatc, '; '.join(sorted(set(problems))), key='R11c|%s|status' % tu)
    else:
        rep.ok('R11c', main.body, main, whatc, '%d exit(s)' % nexits)

    # weight print
    for s in ex.string_literals(main.body):
        if not (s.value or '').startswith('MCB weight'):
            continue
        # R11e: the weight is printed in the same number format for every option combination: no persistent floating-point manipulator
        # (std::fixed / scientific / setprecision / precision()) is applied to the stream on an option-dependent path that reaches the print
        whatf = 'the weight is printed in the same format for every option combination (no option-dependent sticky stream manipulator reaches the print)'
        sticky = []
        for d in main.walk():
            nm = None
            if d.k == 'DeclRefExpr' and d.j.get('fn') is not None:
                fr_ = prog.frefs[d.j['fn']] if isinstance(d.j['fn'], int) and d.j['fn'] < len(prog.frefs) else None
                if fr_ and fr_.get('g') in ('std::fixed', 'std::scientific', 'std::hexfloat', 'std::showpoint'):
                    nm = fr_['g']
            if d.k == 'CallExpr' and d.callee and d.callee['g'] in ('std::setprecision', 'std::setiosflags'):
                nm = d.callee['g']
            if d.k == 'CXXMemberCallExpr' and d.callee and d.callee['name'] in ('precision', 'setf') and d.args() and ex.is_std_stream(d.object_arg(), ('cout',)):
                nm = 'cout.' + d.callee['name']
            if nm is None:
                continue
            chain_root = d
            for a_ in d.ancestors():
                if a_.k == 'CXXOperatorCallExpr' and a_.op == '<<':
                    chain_root = a_
            root = ex.stream_root(chain_root) if chain_root is not d else None
            if root is not None and not ex.is_std_stream(root, ('cout',)):
                continue
            if cfg.reaches(d, s) and not d.is_ancestor_of(s) and not (chain_root.is_ancestor_of(s)):
                sticky.append((d, nm))
        cond_sticky = [(d, nm) for (d, nm) in sticky if ex.ast_conditions(d)]
        if cond_sticky:
            d, nm = cond_sticky[0]
            g_ = ex.ast_conditions(d)[0][0]
            rep.violation('R11e', d, main, whatf, '%s is applied to std::cout only under `%s` and stays in force: with that option the weight is printed in another '
                          'format (e.g. 0.000 for 0.00043), so the output is not identical for every option combination' % (nm, g_.text(40)),
                          key='R11e|%s|sticky' % tu)
        elif sticky:
            rep.undecided('R11e', sticky[0][0], main, whatf, '%s changes the number format before the weight is printed' % sticky[0][1])
        else:
            rep.ok('R11e', s, main, whatf, 'no floating-point manipulator reaches the print')
        p1 = s.enclosing('CXXOperatorCallExpr')
        p2 = p1.enclosing('CXXOperatorCallExpr') if p1 is not None else None
        whatw = 'the value printed after "MCB weight = " is the return value of a library entry point on every path'
        if p2 is None or len(p2.c) < 3:
            rep.undecided('R11c', s, main, whatw, 'print chain not recognised')
            continue
        x = ex.var_of(p2.c[2])
        if x is None:
            val = p2.c[2].strip_all()
            if val.k in ex.CALL_KINDS and val.j.get('callee') in algo:
                rep.ok('R11c', s, main, whatw, 'prints the call result directly')
            elif val.cv is not None or val.k in ('FloatingLiteral', 'IntegerLiteral'):
                # a constant is printed as the weight: right only where every graph reaching the print is a forest.  The guards are evaluated
                # over small graph shapes; a simple graph with n >= 3 vertices and m >= 3 edges can contain a triangle
                gv, _rd = graph_var(main)
                bad = unknown = None
                for n_ in range(0, 8):
                    for m_ in range(0, 8):
                        if m_ > n_ * (n_ - 1) // 2:
                            continue

                        def bind(s_, m_=m_, n_=n_):
                            if s_.k == 'CallExpr' and s_.callee and s_.callee['name'] in ('num_edges', 'num_vertices') and s_.args() and ex.var_of(s_.args()[0]) == gv:
                                return m_ if s_.callee['name'] == 'num_edges' else n_
                            return None
                        try:
                            holds = all(bool(ex.ceval(c_, bind)) == pol_ for (c_, pol_) in ex.ast_conditions(p2)
                                        if any(x_.k == 'CallExpr' and x_.callee and x_.callee['name'] in ('num_edges', 'num_vertices') for x_ in c_.walk()))
                            relevant = [c_ for (c_, pol_) in ex.ast_conditions(p2)
                                        if any(x_.k == 'CallExpr' and x_.callee and x_.callee['name'] in ('num_edges', 'num_vertices') for x_ in c_.walk())]
                        except ex.Unknown as e_:
                            unknown = str(e_)
                            continue
                        if relevant and holds and m_ >= 3 and n_ >= 3 and bad is None:
                            bad = (m_, n_)
                if bad:
                    rep.violation('R11c', s, main, whatw, 'the constant `%s` is printed as the weight without running an algorithm on a path that a graph with %d vertices and %d edges '
                                  'takes - e.g. a triangle plus isolated vertices / a second component, whose cycle space is not trivial (dimension m - n + c)' % (
                                      val.text(12), bad[1], bad[0]), key='R11c|%s|constant-weight' % tu)
                elif unknown or not [c_ for (c_, pol_) in ex.ast_conditions(p2)]:
                    rep.undecided('R11c', s, main, whatw, 'a constant is printed under a condition that is not over num_edges / num_vertices')
                else:
                    rep.ok('R11c', s, main, whatw, 'constant printed only for graphs too small to contain a cycle')
            else:
                rep.undecided('R11c', s, main, whatw, 'printed value is not a variable')
            continue
        defs = ex.assignments_to(main, x)
        problems = []
        def_blocks = set()
        for (d, rhs) in defs:
            if rhs is None:
                if d.k == 'VarDecl':
                    continue  # declaration without initialiser
                problems.append('variable is modified at line %d by something else than an entry-point call' % d.line)
                continue
            r = rhs.strip_all()
            if r.k in ex.CALL_KINDS and r.j.get('callee') in algo and r.callee['g'].startswith('parmcb::'):
                pd = cfg.pos_of(d)
                if pd:
                    def_blocks.add(pd[0])
            else:
                problems.append('assigned from `%s` (line %d), not from a library entry point' % (rhs.text(50), d.line))
        pp = cfg.pos_of(p2)
        if pp is not None:
            reach = cfg.reachable_blocks(cfg.entry, avoid=def_blocks)
            if pp[0] in reach and pp[0] not in def_blocks:
                problems.append('there is a path to the print on which the variable was never assigned from an entry point')
        if problems:
            rep.violation('R11c', s, main, whatw, '; '.join(sorted(set(problems))), key='R11c|%s|weight' % tu)
        else:
            rep.ok('R11c', s, main, whatw, '%d assignment site(s), all entry-point calls' % len(def_blocks))


def run(rep, tier):
    rep.rule('R11a', 'validators dominate algorithm calls; rejecting edge leads to non-zero exit with diagnostic', floor=12)
    rep.rule('R11b', 'MPI demo: gate and exits are rank-uniform', floor=4)
    rep.rule('R11c', 'success path returns 0 and prints an entry point\'s return value', floor=7)
    rep.rule('R11e', 'the weight is printed in one number format for every option combination', floor=3)
    rep.rule('R11d', '--cores=0 ("all cores", a valid option value) never reaches the TBB knob as 0', floor=2)
    rep.rule('R04c', 'the MPI demo computes the same basis for every process count: the rank slices of the library functions it instantiates are exact partitions (shared with C04)', floor=0)
    rep.rule('R07l', 'the demo programs (and the library code they instantiate) do not divide by a collection size that is zero for a valid file (a forest): SIGFPE is not exit status 0', floor=0)
    rep.rule('R11g', 'the approximate demo never lowers k below 1 for a valid file', floor=1)
    rep.rule('R11f', 'the demo graph type keeps parallel edges, so that has_multiple_edges sees what the file says', floor=4)
    rep.rule('R10a', 'the reader cuts the line buffer only at a line terminator (the weight the gate tests is the weight in the file)', floor=0)
    rep.rule('R10b', 'the weight field of every edge line is parsed in full or defaults to 1 only when absent', floor=0)
    tus = env.demo_tus()
    if len(tus) < 4:
        rep.analysis_broken('expected 4 demo programs under src/, found %d' % len(tus))
    progs = env.extract(tus, 'full')
    rep.saw_programs(progs.values())
    for tu, prog in progs.items():
        algo = common.algorithm_frefs(prog)
        ms = common.mains(prog)
        if not ms:
            rep.analysis_broken('%s has no main' % tu)
        from . import c07, c04
        c07.r07l(rep, prog)
        sub4 = type(rep)(rep.prop, rep.tier)
        c04.check_slices(sub4, prog)
        for i in sub4.instances.values():
            if i.rule == 'R04c':
                rep.add(i.rule, i.site, i.function, i.what, i.status, i.detail, key=i.key)
        # the gate decides on what the reader stored: a weight field cut off the line buffer (or defaulted) slips a non-positive
        # weight past has_non_positive_weights (shared with C10)
        from . import c10
        for rfn in prog.fns(c10.READER):
            sub10 = type(rep)(rep.prop, rep.tier)
            c10.check_reader(sub10, prog, rfn)
            for i in sub10.instances.values():
                if i.rule in ('R10a', 'R10b'):
                    rep.add(i.rule, i.site, i.function, i.what, i.status, i.detail, key=i.key)
        for m in ms:
            m = common.driver_body(prog, m)
            check_main(rep, prog, m, algo)
            check_graph_type(rep, prog, m)
            check_k_argument(rep, prog, m)
            c20.knob_zero(rep, prog, m, 'R11d')
    # positive example: the pre-fix MPI shape and a gate that falls through
    pos = os.path.join(env.WITNESS, 'positive', 'c11_rank0_gate.cc')
    pp = env.extract([pos], 'full')[pos]
    prep = type(rep)(rep.prop, rep.tier)
    for m in common.mains(pp):
        check_main(prep, pp, m, common.algorithm_frefs(pp))
    pos20 = os.path.join(env.WITNESS, "positive", "c11_zero_cores.cc")
    pp20 = env.extract([pos20], 'full')[pos20]
    for m in common.mains(pp20):
        c20.knob_zero(prep, pp20, m, 'R11d')
    rep.positive('R11d', 'witness/positive/c11_zero_cores.cc',
                 any(i.status == 'violation' and i.rule == 'R11d' for i in prep.instances.values()))
    for r in ('R11a', 'R11b', 'R11c', 'R11e'):
        rep.positive(r, 'witness/positive/c11_rank0_gate.cc',
                     any(i.status == 'violation' and i.rule == r for i in prep.instances.values()))
    rep.assume('tbb::global_control(max_allowed_parallelism, 0) aborts the process (oneTBB release assertion)')
    rep.assume('all ranks read the same file (the demo opens the path on every rank)')
    rep.assume('the demos are analysed in the pinned configuration (TBB+MPI); "prints the optimum" itself inherits C02\'s limits')
    rep.assume('a failing assert() after the algorithm is not counted as an exit path')
