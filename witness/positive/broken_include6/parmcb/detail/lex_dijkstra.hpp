// POSITIVE EXAMPLE (deliberately broken copy): R12a, R02h, R12c, R12d must fire
#ifndef PARMCB_DETAIL_LEX_DIJKSTRA_HPP_
#define PARMCB_DETAIL_LEX_DIJKSTRA_HPP_

//    Copyright (C) Dimitrios Michail 2019 - 2021.
// Distributed under the Boost Software License, Version 1.0.
//    (See accompanying file LICENSE_1_0.txt or copy at
//          https://www.boost.org/LICENSE_1_0.txt)

#include <iostream>

#include <boost/scoped_array.hpp>
#include <boost/throw_exception.hpp>
#include <boost/functional/hash.hpp>
#include <boost/property_map/property_map.hpp>
#include <boost/property_map/function_property_map.hpp>
#include <boost/graph/graph_traits.hpp>
#include <boost/graph/graph_concepts.hpp>
#include <boost/graph/adjacency_list.hpp>
#include <boost/graph/detail/d_ary_heap.hpp>

#include <parmcb/detail/dijkstra.hpp>
#include <parmcb/detail/util.hpp>

namespace parmcb {

    namespace detail {

        template<class Graph, class DistanceMap>
        struct LexDistance {
            typedef typename boost::property_traits<DistanceMap>::value_type DistanceType;

            LexDistance() :
                    distance(DistanceType()), edge_count(0), vertex_indices() {
            }

            LexDistance(DistanceType distance, std::size_t edge_count, std::set<std::size_t> vertex_indices) :
                    distance(distance), edge_count(edge_count), vertex_indices(vertex_indices) {
            }

            DistanceType distance;
            std::size_t edge_count;
            std::set<std::size_t> vertex_indices;
        };

        template<class Graph, class DistanceMap>
        struct LexDistanceCompare {
            typedef typename boost::property_traits<DistanceMap>::value_type DistanceType;

            bool operator()(const LexDistance<Graph, DistanceMap> &a, const LexDistance<Graph, DistanceMap> &b) {
                if (a.distance < b.distance) {
                    return true;
                }
                if (a.distance > b.distance) {
                    return false;
                }
                if (a.edge_count < b.edge_count) {
                    return true;
                }
                if (a.edge_count > b.distance) {
                    return false;
                }

                std::set<std::size_t> non_common_a;
                std::set_difference(a.vertex_indices.begin(), a.vertex_indices.end(), 
                            b.vertex_indices.begin(), b.vertex_indices.end(),
                            std::inserter(non_common_a, non_common_a.end()));

                std::vector<std::size_t> unsorted_r12h(b.vertex_indices.rbegin(), b.vertex_indices.rend());   // R12h positive
                std::set<std::size_t> non_common_b;
                std::set_difference(unsorted_r12h.begin(), unsorted_r12h.end(), 
                            a.vertex_indices.begin(), a.vertex_indices.end(),
                            std::inserter(non_common_b, non_common_b.end()));

                if (non_common_a.empty() && !non_common_b.empty()) {
                    return true;
                }
                if (!non_common_a.empty() && non_common_b.empty()) {
                    return false;
                }

                // If non-common elements are different, compare them
                if (!non_common_a.empty() && !non_common_b.empty()) {
                    auto min_elem_a = *non_common_a.begin();
                    auto min_elem_b = *non_common_b.begin();
                    if (min_elem_a < min_elem_b) { 
                        return true;
                    }
                }                

                return false;
            }
        };

        template<class Graph, class IndexMap, class WeightMap, class DistanceMap>
        struct LexDistanceCombine {
            typedef typename boost::property_map<Graph, boost::vertex_index_t>::type VertexIndexMapType;
            typedef typename boost::graph_traits<Graph>::edge_descriptor Edge;
            typedef typename boost::property_traits<DistanceMap>::value_type DistanceType;
            typedef typename boost::property_traits<WeightMap>::value_type WeightType;

            LexDistanceCombine(const Graph &g, const IndexMap &index_map, const WeightMap &weight_map) :
                    inf((std::numeric_limits<DistanceType>::max)()), g(g), index_map(
                            index_map), weight_map(weight_map) {
            }

            LexDistance<Graph, DistanceMap> operator()(const LexDistance<Graph, DistanceMap> &a, const Edge &e) {
                const auto index_target = index_map[boost::target(e, g)];
                const auto index_source = index_map[boost::source(e, g)];

                const WeightType e_weight = boost::get(weight_map, e);
                const WeightType sum = combine(a.distance, e_weight);

                std::set<std::size_t> vertex_indices = a.vertex_indices;
                vertex_indices.insert(index_target);
                vertex_indices.insert(index_source);

                return LexDistance<Graph, DistanceMap>(sum, a.edge_count, vertex_indices);
            }

            const DistanceType inf;
            const parmcb::detail::closed_plus<DistanceType> combine;
            const Graph &g;
            const VertexIndexMapType &index_map;
            const WeightMap &weight_map;
        };

    } // detail

    template<class Graph, class WeightMap, class DistanceMap, class PredecessorMap>
    void lex_dijkstra(const Graph &g, const WeightMap &weight_map,
            const typename boost::graph_traits<Graph>::vertex_descriptor &s, DistanceMap &dist_map,
            PredecessorMap &pred_map) {

        typedef typename boost::graph_traits<Graph>::vertex_descriptor Vertex;
        typedef typename boost::property_map<Graph, boost::vertex_index_t>::type VertexIndexMapType;
        typedef typename boost::graph_traits<Graph>::edge_descriptor Edge;
        typedef typename boost::property_traits<DistanceMap>::value_type DistanceType;

        typedef typename parmcb::detail::LexDistance<Graph, DistanceMap> LexDistanceType;
        typedef typename parmcb::detail::LexDistanceCompare<Graph, DistanceMap> LexDistanceCompareType;

        const VertexIndexMapType &index_map = boost::get(boost::vertex_index, g);
        std::vector<std::size_t> index_in_heap(boost::num_vertices(g));
        boost::function_property_map<parmcb::detail::VertexIndexFunctor<Graph, std::size_t>, Vertex, std::size_t&> index_in_heap_map(
                parmcb::detail::VertexIndexFunctor<Graph, std::size_t>(index_in_heap, index_map));

        std::vector<LexDistanceType> lex_dist(boost::num_vertices(g));
        boost::function_property_map<parmcb::detail::VertexIndexFunctor<Graph, LexDistanceType>, Vertex,
                LexDistanceType&> lex_dist_map(
                parmcb::detail::VertexIndexFunctor<Graph, LexDistanceType>(lex_dist, index_map));

        typedef boost::d_ary_heap_indirect<Vertex, 4,
                boost::function_property_map<parmcb::detail::VertexIndexFunctor<Graph, std::size_t>, Vertex,
                        std::size_t&>,
                boost::function_property_map<parmcb::detail::VertexIndexFunctor<Graph, LexDistanceType>, Vertex,
                        LexDistanceType&>, LexDistanceCompareType> VertexQueue;

        LexDistanceCompareType compare;
        parmcb::detail::LexDistanceCombine<Graph, VertexIndexMapType, WeightMap, DistanceMap> combine(g, index_map, weight_map);

        VertexQueue queue(lex_dist_map, index_in_heap_map, compare);

        boost::put(lex_dist_map, s, LexDistanceType(DistanceType(), 0, std::set<std::size_t>({ index_map[s] })));
        boost::put(pred_map, s, std::make_tuple(false, Edge()));
        queue.push(s);

        while (!queue.empty()) {
            Vertex u = queue.top();
            queue.pop();
            LexDistanceType d_u = boost::get(lex_dist_map, u);

            auto eiRange = boost::out_edges(u, g);
            for (auto ei = eiRange.first; ei != eiRange.second; ++ei) {
                auto e = *ei;

                auto w = boost::target(e, g);
                if (w == u) {
                    w = boost::source(e, g);
                }
                if (w == u) {
                    // self-loop
                    continue;
                }
                if (w == s) {
                    continue;
                }

                const LexDistanceType c = combine(d_u, e);
                bool visited_w = std::get<0>(boost::get(pred_map, w));
                if (!visited_w) {
                    // first time found
                    boost::put(lex_dist_map, w, c);
                    boost::put(dist_map, w, c.distance);
                    boost::put(pred_map, w, std::make_tuple(true, e));
                    queue.push(w);
                } else if (compare(boost::get(lex_dist_map, w), c)) {
                    // already reached
                    boost::put(lex_dist_map, w, c);
                    boost::put(dist_map, w, d_u.distance);
                    boost::put(pred_map, w, std::make_tuple(true, e));
                    queue.update(w);
                }
            }
        }
    }

} // mcb

#endif
