// POSITIVE EXAMPLE (deliberately broken copy): R12b/R12g, R12e must fire
#ifndef PARMCB_SPTREES_HPP_
#define PARMCB_SPTREES_HPP_

//    Copyright (C) Dimitrios Michail 2019 - 2021.
// Distributed under the Boost Software License, Version 1.0.
//    (See accompanying file LICENSE_1_0.txt or copy at
//          https://www.boost.org/LICENSE_1_0.txt)

#include <iostream>

#include <boost/throw_exception.hpp>
#include <boost/property_map/property_map.hpp>
#include <boost/property_map/function_property_map.hpp>
#include <boost/graph/graph_traits.hpp>
#include <boost/graph/graph_concepts.hpp>
#include <boost/graph/graph_utility.hpp>
#include <boost/graph/adjacency_list.hpp>
#include <boost/serialization/vector.hpp>

#include <parmcb/config.hpp>
#include <parmcb/detail/lex_dijkstra.hpp>
#include <parmcb/detail/util.hpp>

#include <parmcb/forestindex.hpp>
#include <parmcb/spvecgf2.hpp>

#include <memory>
#include <stack>
#include <functional>

#ifdef PARMCB_HAVE_TBB
#include <tbb/parallel_for.h>
#include <tbb/parallel_reduce.h>
#endif

namespace parmcb {

    template<class Graph, class WeightMap> class SPNode;
    template<class Graph, class WeightMap> class SPTree;
    template<class Graph, class WeightMap, class T> struct SPSubtree;
    template<class Graph, class WeightMap, bool ParallelUsingTBB> class SPTrees;
    template<class Graph, class WeightMap> class CandidateCycle;
    template<class Graph> struct SerializableCandidateCycle;
    template<class Graph, class WeightMap> struct SerializableMinOddCycle;
    template<class Graph, class WeightMap> struct SerializableMinOddCycleMinOp;

    template<class Graph, class WeightMap>
    class SPNode {
    public:
        typedef typename boost::graph_traits<Graph>::vertex_descriptor Vertex;
        typedef typename boost::graph_traits<Graph>::edge_descriptor Edge;
        typedef typename boost::property_traits<WeightMap>::value_type WeightType;

        SPNode() :
                _vertex(), _parity(false), _weight(WeightType()), _pred(), _has_pred(false) {
        }

        SPNode(Vertex vertex, WeightType weight) :
                _vertex(vertex), _parity(false), _weight(WeightType()), _pred(), _has_pred(false) {
        }

        SPNode(Vertex vertex, WeightType weight, const Edge &pred) :
                _vertex(vertex), _parity(false), _weight(weight), _pred(pred), _has_pred(true) {
        }

        void add_child(std::shared_ptr<SPNode<Graph, WeightMap>> c) {
            _children.push_back(c);
        }

        std::vector<std::shared_ptr<SPNode<Graph, WeightMap>>>& children() {
            return _children;
        }

        Vertex& vertex() {
            return _vertex;
        }

        bool& parity() {
            return _parity;
        }

        WeightType& weight() {
            return _weight;
        }

        const Edge& pred() {
            return _pred;
        }

        bool has_pred() {
            return _has_pred;
        }

    private:
        Vertex _vertex;
        bool _parity;
        WeightType _weight;
        Edge _pred;
        bool _has_pred;
        std::vector<std::shared_ptr<SPNode<Graph, WeightMap>>> _children;
    };

    template<class Graph, class WeightMap, class T>
    struct SPSubtree {
        T info;
        std::shared_ptr<SPNode<Graph, WeightMap>> root;

        SPSubtree(T info, std::shared_ptr<SPNode<Graph, WeightMap>> root) :
                info(info), root(root) {
        }
    };

    template<class Graph, class WeightMap>
    class SPTree {
    public:
        typedef typename boost::graph_traits<Graph>::vertex_descriptor Vertex;
        typedef typename boost::graph_traits<Graph>::vertex_iterator VertexIt;
        typedef typename boost::property_map<Graph, boost::vertex_index_t>::type VertexIndexMapType;
        typedef typename boost::graph_traits<Graph>::edge_descriptor Edge;
        typedef typename boost::property_traits<WeightMap>::value_type WeightType;

        SPTree(std::size_t id, const Graph &g, const VertexIndexMapType& index_map, const WeightMap &weight_map, const Vertex &source) :
                _id(id), _g(g), _weight_map(weight_map), _index_map(index_map), _source(
                        source), _tree_node_map(boost::num_vertices(g)), _first_in_path(boost::num_vertices(g)) {
            initialize();
        }

        void update_parities(const std::set<Edge> &edges) {
            std::stack<SPSubtree<Graph, WeightMap, bool>> stack;
            stack.emplace(false, _root);

            while (!stack.empty()) {
                SPSubtree<Graph, WeightMap, bool> r = stack.top();
                stack.pop();

                r.root->parity() = r.info;
                for (auto c : r.root->children()) {
                    bool is_signed = edges.find(c->pred()) != edges.end();
                    stack.emplace(SPSubtree<Graph, WeightMap, bool> { static_cast<bool>(r.info ^ is_signed), c });
                }
            }
        }

        std::shared_ptr<SPNode<Graph, WeightMap>> node(const Vertex &v) const {
            return _tree_node_map[_index_map[v]];
        }

        const Vertex& source() const {
            return _source;
        }

        const Graph& graph() const {
            return _g;
        }

        const std::size_t id() const {
            return _id;
        }

        const Vertex first(const Vertex &v) {
            auto vindex = _index_map[v];
            return _first_in_path[vindex];
        }

        template<class EdgeIterator>
        std::vector<CandidateCycle<Graph, WeightMap>> create_candidate_cycles(EdgeIterator begin,
                EdgeIterator end) const {
            // collect tree edges
            std::set<Edge> tree_edges;
            VertexIt vi, viend;
            for (boost::tie(vi, viend) = boost::vertices(_g); vi != viend; ++vi) {
                auto v = *vi;
                auto vindex = _index_map[v];
                std::shared_ptr<SPNode<Graph, WeightMap>> n = _tree_node_map[vindex];
                if (n != nullptr && n->has_pred()) {
                    tree_edges.insert(n->pred());
                }
            }

            // loop over (non-tree) provided edges and create candidate cycles
            std::vector<CandidateCycle<Graph, WeightMap>> cycles;
            for (EdgeIterator it = begin; it != end; it++) {
                Edge e = *it;
                if (tree_edges.find(e) != tree_edges.end()) {
                    continue;
                }

                // non-tree edge
                std::shared_ptr<SPNode<Graph, WeightMap>> v = node(boost::source(e, _g));
                if (v == nullptr) {
                    continue;
                }
                std::shared_ptr<SPNode<Graph, WeightMap>> u = node(boost::target(e, _g));
                if (u == nullptr) {
                    continue;
                }

                if (_first_in_path[_index_map[v->vertex()]] == _first_in_path[_index_map[u->vertex()]]) {
                    // shortest paths start with the same vertex, discard
                    continue;
                }

                WeightType cycle_weight = boost::get(_weight_map, e) + v->weight() + u->weight();
                cycles.emplace_back(_id, e, cycle_weight);
            }
            return cycles;
        }

        std::vector<CandidateCycle<Graph, WeightMap>> create_candidate_cycles() const {
            auto itPair = boost::edges(_g);
            return create_candidate_cycles(itPair.first, itPair.second);
        }

        std::vector<SerializableCandidateCycle<Graph>> create_serializable_candidate_cycles(
                const ForestIndex<Graph> &forest_index) {
            // collect tree edges
            std::set<Edge> tree_edges;
            VertexIt vi, viend;
            for (boost::tie(vi, viend) = boost::vertices(_g); vi != viend; ++vi) {
                auto v = *vi;
                auto vindex = _index_map[v];
                std::shared_ptr<SPNode<Graph, WeightMap>> n = _tree_node_map[vindex];
                if (n != nullptr && n->has_pred()) {
                    tree_edges.insert(n->pred());
                }
            }

            // loop over all non-tree edges and create candidate cycles
            std::vector<SerializableCandidateCycle<Graph>> cycles;
            for (const auto &e : boost::make_iterator_range(boost::edges(_g))) {
                if (tree_edges.find(e) != tree_edges.end()) {
                    continue;
                }

                // non-tree edge
                std::shared_ptr<SPNode<Graph, WeightMap>> v = node(boost::source(e, _g));
                if (v == nullptr) {
                    continue;
                }
                std::shared_ptr<SPNode<Graph, WeightMap>> u = node(boost::target(e, _g));
                if (u == nullptr) {
                    continue;
                }

                if (_first_in_path[_index_map[v->vertex()]] == _first_in_path[_index_map[u->vertex()]]) {
                    // shortest paths start with the same vertex, discard
                    continue;
                }

                cycles.emplace_back(_source, forest_index(e));
            }

            return cycles;
        }

    private:
        const std::size_t _id;
        const Graph &_g;
        const WeightMap &_weight_map;
        const VertexIndexMapType &_index_map;
        const Vertex _source;

        /*
         * Shortest path tree root
         */
        std::shared_ptr<SPNode<Graph, WeightMap>> _root;
        /*
         * Map from vertex to shortest path tree node
         */
        std::vector<std::shared_ptr<SPNode<Graph, WeightMap>>> _tree_node_map;
        /*
         * First vertex in shortest path from root to a vertex.
         */
        std::vector<Vertex> _first_in_path;

        void initialize() {
            // run shortest path
            std::vector<WeightType> dist(boost::num_vertices(_g), (std::numeric_limits<WeightType>::max)());
            boost::function_property_map<parmcb::detail::VertexIndexFunctor<Graph, WeightType>, Vertex, WeightType&> dist_map(
                    parmcb::detail::VertexIndexFunctor<Graph, WeightType>(dist, _index_map));
            std::vector<std::tuple<bool, Edge>> pred(boost::num_vertices(_g), std::make_tuple(false, Edge()));
            boost::function_property_map<parmcb::detail::VertexIndexFunctor<Graph, std::tuple<bool, Edge>>, Vertex,
                    std::tuple<bool, Edge>&> pred_map(
                    parmcb::detail::VertexIndexFunctor<Graph, std::tuple<bool, Edge> >(pred, _index_map));

            lex_dijkstra(_g, _weight_map, _source, dist_map, pred_map);

            // create tree nodes and mapping
            VertexIt vi, viend;
            for (boost::tie(vi, viend) = boost::vertices(_g); vi != viend; ++vi) {
                auto v = *vi;
                auto vindex = _index_map[v];
                auto p = boost::get(pred_map, v);

                if (v == _source) {
                    _tree_node_map[vindex] = std::shared_ptr<SPNode<Graph, WeightMap>>(
                            new SPNode<Graph, WeightMap>(v, dist[vindex]));
                    _root = _tree_node_map[vindex];
                } else if (std::get<0>(p)) {
                    Edge e = std::get<1>(p);
                    _tree_node_map[vindex] = std::shared_ptr<SPNode<Graph, WeightMap>>(
                            new SPNode<Graph, WeightMap>(v, dist[_index_map[_source]], e));
                }
            }

            // link tree nodes
            for (boost::tie(vi, viend) = boost::vertices(_g); vi != viend; ++vi) {
                auto v = *vi;
                auto p = boost::get(pred_map, v);
                if (std::get<0>(p)) {
                    auto e = std::get<1>(p);
                    auto u = boost::source(e, _g);
                    auto vindex = _index_map[v];
                    auto uindex = _index_map[u];
                    _tree_node_map[uindex]->add_child(_tree_node_map[vindex]);
                }
            }

            // compute first in path
            compute_first_in_path();
        }

        void compute_first_in_path() {
            std::stack<SPSubtree<Graph, WeightMap, Vertex>> stack;
            stack.emplace(_source, _root);

            while (!stack.empty()) {
                SPSubtree<Graph, WeightMap, Vertex> r = stack.top();
                stack.pop();

                if (r.root == _root) {
                    auto v = r.root->vertex();
                    auto vindex = _index_map[v];
                    _first_in_path[vindex] = v;
                    for (auto c : r.root->children()) {
                        stack.emplace(SPSubtree<Graph, WeightMap, Vertex> { static_cast<Vertex>(c->vertex()), c });
                    }
                } else {
                    auto v = r.root->vertex();
                    auto vindex = _index_map[v];
                    _first_in_path[vindex] = r.info;
                    for (auto c : r.root->children()) {
                        stack.emplace(SPSubtree<Graph, WeightMap, Vertex> { static_cast<Vertex>(c->vertex()), c });
                    }
                }
            }
        }

    };

    template<class Graph, class WeightMap>
    class CandidateCycle {
    public:
        typedef typename boost::graph_traits<Graph>::vertex_descriptor Vertex;
        typedef typename boost::graph_traits<Graph>::edge_descriptor Edge;
        typedef typename boost::property_traits<WeightMap>::value_type WeightType;

        CandidateCycle(std::size_t tree, const Edge &e, WeightType weight) :
                _tree(tree), _e(e), _weight(weight) {
        }

        CandidateCycle(const CandidateCycle &c) :
                _tree(c._tree), _e(c._e), _weight(c._weight) {
        }

        CandidateCycle& operator=(const CandidateCycle &other) {
            if (this != &other) {
                _tree = other._tree;
                _e = other._e;
                _weight = other._weight;
            }
            return *this;
        }

        std::size_t tree() const {
            return _tree;
        }

        const Edge& edge() const {
            return _e;
        }

        const WeightType& weight() const {
            return _weight;
        }

    private:
        std::size_t _tree;
        Edge _e;
        WeightType _weight;
    };

    template<class Graph>
    struct SerializableCandidateCycle {
        typedef typename boost::graph_traits<Graph>::vertex_descriptor Vertex;
        typedef typename ForestIndex<Graph>::size_type Edge;

        SerializableCandidateCycle() {
        }

        SerializableCandidateCycle(Vertex v, Edge e) :
                v(v), e(e) {
        }

        template<typename Archive>
        void serialize(Archive &ar, const unsigned) {
            ar & v;
            ar & e;
        }

        Vertex v;
        Edge e;
    };

    template<class Graph, class WeightMap>
    struct SerializableMinOddCycle {
        typedef typename ForestIndex<Graph>::size_type Edge;
        typedef typename boost::property_traits<WeightMap>::value_type WeightType;

        SerializableMinOddCycle() :
                exists(false) {
        }

        SerializableMinOddCycle(std::vector<Edge> edges, WeightType weight, bool exists) :
                edges(edges), weight(weight), exists(exists) {
        }

        SerializableMinOddCycle(const SerializableMinOddCycle<Graph, WeightMap> &c) :
                edges(c.edges), weight(c.weight), exists(c.exists) {
        }

        SerializableMinOddCycle<Graph, WeightMap>& operator=(const SerializableMinOddCycle<Graph, WeightMap> &other) {
            if (this != &other) {
                edges = other.edges;
                weight = other.weight;
                exists = other.exists;
            }
            return *this;
        }

        template<typename Archive>
        void serialize(Archive &ar, const unsigned) {
            ar & edges;
            ar & weight;
            ar & exists;
        }

        std::vector<Edge> edges;
        WeightType weight;
        bool exists;
    };

    template<class Graph, class WeightMap>
    struct SerializableMinOddCycleMinOp {

        const SerializableMinOddCycle<Graph, WeightMap>& operator()(
                const SerializableMinOddCycle<Graph, WeightMap> &lhs,
                const SerializableMinOddCycle<Graph, WeightMap> &rhs) const {
            if (!lhs.exists || !rhs.exists) {
                if (lhs.exists) {
                    return lhs;
                } else {
                    return rhs;
                }
            }
            // both valid, compare
            if (lhs.weight < rhs.weight) {
                return lhs;
            }
            return rhs;
        }

    };

    template<class Graph, class WeightMap>
    class CandidateCycleToSerializableConverter {
    public:
        CandidateCycleToSerializableConverter(const std::vector<parmcb::SPTree<Graph, WeightMap>> &trees,
                const ForestIndex<Graph> &forest_index) :
                trees(trees), forest_index(forest_index) {
        }

        SerializableCandidateCycle<Graph> operator()(const CandidateCycle<Graph, WeightMap> &cycle) const {
            return SerializableCandidateCycle<Graph>(trees.at(cycle.tree()).source(), forest_index(cycle.edge()));
        }

    private:
        const std::vector<parmcb::SPTree<Graph, WeightMap>> &trees;
        const ForestIndex<Graph> &forest_index;
    };

    template<class Graph, class WeightMap>
    class CandidateCycleBuilder {
    public:
        typedef typename boost::graph_traits<Graph>::vertex_descriptor Vertex;
        typedef typename boost::graph_traits<Graph>::edge_descriptor Edge;
        typedef typename boost::property_traits<WeightMap>::value_type WeightType;

        CandidateCycleBuilder(const Graph &g, const WeightMap &weight_map) :
                g(g), weight_map(weight_map) {
        }

        std::tuple<std::set<Edge>, WeightType, bool> operator()(const std::vector<parmcb::SPTree<Graph, WeightMap>> &trees,
                const CandidateCycle<Graph, WeightMap> &c, const std::set<Edge> &signed_edges, bool use_weight_limit,
                WeightType weight_limit) const {

            std::shared_ptr<SPNode<Graph, WeightMap>> v = trees[c.tree()].node(boost::source(c.edge(), g));
            std::shared_ptr<SPNode<Graph, WeightMap>> u = trees[c.tree()].node(boost::target(c.edge(), g));

            Edge e = c.edge();
            if (v->parity() ^ u->parity() ^ (signed_edges.find(e) != signed_edges.end())) {
                // odd cycle, validate
                bool valid = true;
                WeightType cycle_weight = boost::get(weight_map, e);
                std::set<Edge> result;
                result.insert(e);

                if (use_weight_limit && cycle_weight > weight_limit) {
                    return std::make_tuple(std::set<Edge> { }, 0.0, false);
                }

                // first part
                Vertex w = boost::source(c.edge(), g);
                std::shared_ptr<SPNode<Graph, WeightMap>> ws = trees[c.tree()].node(w);
                while (ws->has_pred()) {
                    Edge a = ws->pred();
                    if (result.insert(a).second == false) {
                        valid = false;
                        break;
                    }
                    cycle_weight += boost::get(weight_map, a);
                    if (use_weight_limit && cycle_weight > weight_limit) {
                        valid = false;
                        break;
                    }
                    w = boost::opposite(a, w, g);
                    ws = trees[c.tree()].node(w);
                }

                if (!valid) {
                    return std::make_tuple(std::set<Edge> { }, 0.0, false);
                }

                // second part
                w = boost::target(c.edge(), g);
                ws = trees[c.tree()].node(w);
                while (ws->has_pred()) {
                    Edge a = ws->pred();
                    if (result.insert(a).second == false) {
                        valid = false;
                        break;
                    }
                    cycle_weight += boost::get(weight_map, a);
                    if (use_weight_limit && cycle_weight > weight_limit) {
                        valid = false;
                        break;
                    }
                    w = boost::opposite(a, w, g);
                    ws = trees[c.tree()].node(w);
                }

                if (!valid) {
                    return std::make_tuple(std::set<Edge> { }, 0.0, false);
                }

                return std::make_tuple(result, cycle_weight, true);
            }
            return std::make_tuple(std::set<Edge> { }, 0.0, false);
        }

    private:
        const Graph &g;
        const WeightMap &weight_map;
    };

    template<class Graph, class WeightMap, bool ParallelUsingTBB>
    class ShortestOddCycleLookup {
    public:
        typedef typename boost::graph_traits<Graph>::vertex_descriptor Vertex;
        typedef typename boost::graph_traits<Graph>::edge_descriptor Edge;
        typedef typename boost::property_traits<WeightMap>::value_type WeightType;

        ShortestOddCycleLookup(const Graph &g, const WeightMap &weight_map,
                std::vector<parmcb::SPTree<Graph, WeightMap>> &trees,
                std::vector<parmcb::CandidateCycle<Graph, WeightMap>> &cycles, bool sorted_cycles) :
                g(g), weight_map(weight_map), candidate_cycle_builder(g, weight_map), trees(trees), cycles(cycles), sorted_cycles(
                        sorted_cycles) {
        }

        std::tuple<std::set<Edge>, WeightType, bool> operator()(const std::set<Edge> &edges) {
            return compute_shortest_odd_cycle(edges);
        }

    private:

        template<bool is_tbb_enabled = ParallelUsingTBB>
        std::tuple<std::set<Edge>, WeightType, bool> compute_shortest_odd_cycle(const std::set<Edge> &edges,
                typename std::enable_if<!is_tbb_enabled>::type* = 0) {

            for (std::size_t i = 0; i < trees.size(); i++) {
                trees[i].update_parities(edges);
            }

            std::tuple<std::set<Edge>, WeightType, bool> min;

            for (CandidateCycle<Graph, WeightMap> c : cycles) {
                std::tuple<std::set<Edge>, WeightType, bool> cc = candidate_cycle_builder(trees, c, edges,
                        std::get<2>(min), std::get<1>(min));

                if (std::get<2>(cc)) {
                    if (sorted_cycles) {
                        return cc;
                    }

                    if (!std::get<2>(min)) {
                        min = cc;
                    } else {
                        if (std::get<1>(cc) < std::get<1>(min)) {
                            min = cc;
                        }
                    }
                }
            }
            return min;
        }

#ifdef PARMCB_HAVE_TBB
        template<bool is_tbb_enabled = ParallelUsingTBB>
        std::tuple<std::set<Edge>, WeightType, bool> compute_shortest_odd_cycle(const std::set<Edge> &edges,
                typename std::enable_if<is_tbb_enabled>::type* = 0) {

            tbb::parallel_for(tbb::blocked_range<std::size_t>(0, trees.size()),
                    [&](const tbb::blocked_range<std::size_t> &r) {
                        for (std::size_t i = r.begin(); i != r.end(); ++i) {
                            trees[i].update_parities(edges);
                        }
                    });

            std::less<WeightType> compare = std::less<WeightType>();
            typedef std::tuple<std::set<Edge>, WeightType, bool> cycle_t;
            auto cycle_min = [compare](const cycle_t &c1, const cycle_t &c2) {
                if (!std::get<2>(c1) || !std::get<2>(c2)) {
                    if (std::get<2>(c1)) {
                        return c1;
                    } else {
                        return c2;
                    }
                }
                // both valid, compare
                if (!compare(std::get<1>(c2), std::get<1>(c1))) {
                    return c1;
                }
                return c2;
            };

            return tbb::parallel_reduce(tbb::blocked_range<std::size_t>(0, cycles.size()),
                    std::make_tuple(std::set<Edge>(), (std::numeric_limits<WeightType>::max)(), false),
                    [&](tbb::blocked_range<std::size_t> r, auto running_min) {
                        for (std::size_t i = r.begin(); i < r.end(); i++) {
                            auto c = cycles[i];
                            auto cc = candidate_cycle_builder(trees, c, edges, std::get<2>(running_min),
                                    std::get<1>(running_min));
                            if (std::get<2>(cc)) {
                                if (!std::get<2>(running_min) || compare(std::get<1>(cc), std::get<1>(running_min))) {
                                    running_min = cc;
                                }
                            }
                        }
                        return running_min;
                    },
                    cycle_min);
        }
#endif

        const Graph &g;
        const WeightMap &weight_map;
        const CandidateCycleBuilder<Graph, WeightMap> candidate_cycle_builder;
        std::vector<parmcb::SPTree<Graph, WeightMap>> &trees;
        std::vector<parmcb::CandidateCycle<Graph, WeightMap>> &cycles;
        bool sorted_cycles;
    };

} // parmcb

#endif
