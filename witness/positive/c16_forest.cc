// positive example for the C16 rules; compiled with witness/positive/broken_include2 first.  Never executed.
#include <boost/graph/adjacency_list.hpp>
#include <parmcb/forestindex.hpp>
typedef boost::adjacency_list<boost::vecS, boost::vecS, boost::undirectedS, boost::no_property, boost::property<boost::edge_weight_t, double> > graph_t;
std::size_t use_c16(const graph_t &g) {
    parmcb::ForestIndex<graph_t> fi(g);
    parmcb::ForestIndex<graph_t> copy(fi);
    copy = fi;
    std::size_t r = fi.cycle_space_dimension() + copy.weak_connected_components();
    for (auto e : boost::make_iterator_range(boost::edges(g))) { r += fi(e) + (fi.is_on_forest(e) ? 1 : 0); auto e2 = fi(fi(e)); (void) e2; }
    return r;
}
