// positive example for R01e / R02h / R02i; compiled with witness/positive/broken_include4 first.  Never executed.
#include <list>
#include <boost/graph/adjacency_list.hpp>
#include <parmcb/parmcb_sva_signed.hpp>
#include <parmcb/parmcb_sva_trees.hpp>
typedef boost::adjacency_list<boost::vecS, boost::vecS, boost::undirectedS, boost::no_property, boost::property<boost::edge_weight_t, double> > graph_t;
double use_search(const graph_t &g, std::list<std::list<boost::graph_traits<graph_t>::edge_descriptor>> &c) {
    return parmcb::mcb_sva_signed(g, get(boost::edge_weight, g), std::back_inserter(c)) + parmcb::mcb_sva_fvs_trees(g, get(boost::edge_weight, g), std::back_inserter(c));
}
