// positive example for the C04 rules; compiled with witness/positive/broken_include first.  Never executed.
#include <list>
#include <boost/graph/adjacency_list.hpp>
#include <boost/mpi.hpp>
#include <parmcb/mpi/parmcb.hpp>
typedef boost::adjacency_list<boost::vecS, boost::vecS, boost::undirectedS, boost::no_property, boost::property<boost::edge_weight_t, double> > graph_t;
double use_c04(const graph_t &g, std::list<std::list<boost::graph_traits<graph_t>::edge_descriptor>> &c, boost::mpi::communicator &w) {
    return parmcb::mcb_sva_signed_mpi(g, get(boost::edge_weight, g), std::back_inserter(c), w) +
           parmcb::mcb_sva_fvs_trees_mpi(g, get(boost::edge_weight, g), std::back_inserter(c), w);
}
