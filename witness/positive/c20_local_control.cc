// positive example for R20a and R20b: the pre-fix shapes (local control object; knob only with --verbose).
// Self-contained stand-ins for the parmcb names so that the rules' anchors match; never compiled into anything.
#include <cstddef>
#include <iostream>
#include <list>
#include <boost/program_options.hpp>
#include <tbb/global_control.h>
namespace parmcb {
inline void set_global_tbb_concurrency(const std::size_t n) {
    oneapi::tbb::global_control global_limit(oneapi::tbb::global_control::max_allowed_parallelism, n);
}
template<class G> double mcb_sva_signed_tbb(const G &g) { return (double) g; }
}
// R20f: the previous control is released (leaked, still in force), not destroyed
#include <memory>
namespace parmcb {
inline void set_global_tbb_concurrency(const std::size_t n, int /*leaky overload*/) {
    static std::unique_ptr<oneapi::tbb::global_control> global_limit;
    global_limit.release();
    global_limit.reset(new oneapi::tbb::global_control(oneapi::tbb::global_control::max_allowed_parallelism, n));
}
}
namespace po = boost::program_options;
int main(int argc, char *argv[]) {
    po::variables_map vm;
    po::options_description desc("usage");
    desc.add_options()("cores,c", po::value<int>(), "cores")("verbose,v", po::value<bool>()->default_value(false), "v")(
            "parallel,p", po::value<bool>()->default_value(true), "p");
    po::store(po::parse_environment(desc, "PARMCB_"), vm);      // R20d: stored first, overrides the command line
    po::store(po::parse_command_line(argc, argv, desc), vm);
    if (vm.count("cores")) {
        std::size_t cores = vm["cores"].as<int>();
        if (cores == 0 || cores > 4) {
            cores = 4;                                   // R20c: clamps the requested value
        }
        if (vm["verbose"].as<bool>() && vm["parallel"].as<bool>()) {
            parmcb::set_global_tbb_concurrency(cores);
        }
    }
    double w = 0;
    if (vm["parallel"].as<bool>()) {
        w = parmcb::mcb_sva_signed_tbb(3);
    }
    std::cout << w << std::endl;
    return 0;
}

// R20e: work handed to a thread that the TBB limit does not govern
#include <future>
namespace r20e_pos {
inline int overlapped_sum(int a, int b) {
    std::future<int> f = std::async(std::launch::async, [a]() { return a * 2; });
    return f.get() + b;
}
}
