#include "c19_odr.hpp"
int use_positive() { return positive::not_inline(1) + positive::is_inline(1) + positive::is_template(1); }
