// positive example for R10a..R10e: a reader/validators with the defects the rules look for.
// Stand-ins named like the parmcb functions; does not include parmcb headers; never executed.
#include <cstdio>
#include <cstring>
#include <map>
#include <set>
#include <vector>
#include <algorithm>
#include <system_error>
#include <boost/graph/adjacency_list.hpp>
#include <boost/graph/graph_utility.hpp>
namespace parmcb {
template<class Graph>
void read_dimacs_from_file(FILE *fp, Graph &graph) {
    typedef typename boost::graph_traits<Graph>::vertex_descriptor vertex_descriptor;
    typedef typename boost::graph_traits<Graph>::edge_descriptor edge_descriptor;
    char buffer[256], problem[256];                       // R10f: shorter than the 1024 bytes the property is stated for
    std::size_t nnodes, nedges;
    std::map<std::size_t, vertex_descriptor> vertex_map;
    typename boost::property_map<Graph, boost::edge_weight_t>::type weight = get(boost::edge_weight, graph);
    int rs, rt;
    double rw = 1;                                        // R10b: hoisted out of the line loop
    while (fgets(buffer, sizeof(buffer), fp) != NULL) {
        buffer[strlen(buffer) - 1] = '\0';                // R10a: unconditional cut
        if (buffer[0] == 'c') {
            continue;
        } else if (buffer[0] == 'p') {
            sscanf(buffer, "p %s %lu %lu", problem, &nnodes, &nedges);
            for (std::size_t i = 1; i < nnodes; i++) {    // R10d: one vertex short
                vertex_map[i] = boost::add_vertex(graph);
            }
        } else if (buffer[0] == 'a' || buffer[0] == 'e') {
            char fc;
            sscanf(buffer, "%c %d %d %lf", &fc, &rs, &rt, &rw);
            if (vertex_map.find(rs) == vertex_map.end()) {
                throw std::system_error(EIO, std::generic_category(), "Vertex not found");
            }
            // R10c: rt is never looked up
            vertex_descriptor s = boost::vertex(vertex_map[rs], graph);
            vertex_descriptor t = boost::vertex(vertex_map[rt], graph);
            edge_descriptor e = boost::add_edge(s, t, graph).first;
            weight[e] = rw;
        }
    }
}
template<class Graph, class WeightMap>
bool has_non_positive_weights(const Graph &g, const WeightMap &weight_map) {
    auto eRange = boost::edges(g);
    for (auto eit = eRange.first; eit != eRange.second; ++eit) {
        auto e = *eit;
        if (boost::get(weight_map, e) < 0.0) {            // R10e: zero weights accepted
            return true;
        }
    }
    return false;
}
template<class Graph>
bool has_multiple_edges(const Graph &g) {
    typedef typename boost::graph_traits<Graph>::vertex_descriptor Vertex;
    auto vRange = boost::vertices(g);
    std::vector<Vertex> nb;
    for (auto vit = vRange.first; vit != vRange.second; ++vit) {
        auto v = *vit;
        nb.clear();
        auto eRange = boost::out_edges(v, g);
        for (auto eit = eRange.first; eit != eRange.second; ++eit) {
            auto e = *eit;
            nb.push_back(boost::opposite(e, v, g));
        }
        if (std::adjacent_find(nb.begin(), nb.end()) != nb.end()) {   // R10e: not sorted
            return true;
        }
    }
    return false;
}
}
typedef boost::adjacency_list<boost::vecS, boost::vecS, boost::undirectedS, boost::no_property,
        boost::property<boost::edge_weight_t, double> > graph_t;
int use(FILE *fp, graph_t &g) {
    parmcb::read_dimacs_from_file(fp, g);
    return parmcb::has_non_positive_weights(g, get(boost::edge_weight, g)) + parmcb::has_multiple_edges(g);
}
