// positive example for C12: instantiates SPTree / lex_dijkstra from the deliberately broken copies in broken_include6/
#include <vector>
#include <map>
#include <set>
#include <stack>
#include <memory>
#include <boost/graph/adjacency_list.hpp>
#include <parmcb/config.hpp>
#include <parmcb/sptrees.hpp>
typedef boost::adjacency_list<boost::vecS, boost::vecS, boost::undirectedS, boost::no_property, boost::property<boost::edge_weight_t, double>> graph_t;
std::size_t use_c12(graph_t &g) {
    auto w = boost::get(boost::edge_weight, g);
    auto idx = boost::get(boost::vertex_index, g);
    parmcb::SPTree<graph_t, decltype(w)> t(0, g, idx, w, *boost::vertices(g).first);
    return t.create_candidate_cycles().size();
}
