// positive example for C13: instantiates greedy_fvs from the deliberately broken copy in broken_include5/
#include <vector>
#include <map>
#include <deque>
#include <boost/graph/adjacency_list.hpp>
#include <parmcb/detail/fvs.hpp>
typedef boost::adjacency_list<boost::vecS, boost::vecS, boost::undirectedS, boost::no_property, boost::property<boost::edge_weight_t, double>> graph_t;
std::size_t use_c13(const graph_t &g) {
    std::vector<boost::graph_traits<graph_t>::vertex_descriptor> out;
    parmcb::greedy_fvs(g, std::back_inserter(out));
    return out.size();
}
