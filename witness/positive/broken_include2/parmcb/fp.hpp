// POSITIVE EXAMPLE (deliberately broken copy): R18a (x uses the sign of b), R18d (is_prime(2)), R18e (returns y) must fire
#ifndef PARMCB_FP_HPP_
#define PARMCB_FP_HPP_

//    Copyright (C) Dimitrios Michail 2019 - 2023.
// Distributed under the Boost Software License, Version 1.0.
//    (See accompanying file LICENSE_1_0.txt or copy at
//          https://www.boost.org/LICENSE_1_0.txt)

#include <cassert>
#include <cmath>
#include <cstddef>
#include <stdexcept>

namespace parmcb {

template<class T>
class fp {

public:
    // extended euclidean gcd algorithm
    static T ext_gcd(T &a, T &b, T &x, T &y);
    static T get_mult_inverse(T &a, T &p);

};

// extended euclidean gcd algorithm
template<class T>
T fp<T>::ext_gcd(T &a, T &b, T &x, T &y) {

    // initialize
    T _x[2], _y[2], _a[2], q;
    bool aneg, bneg;

    _x[0] = 1;
    _x[1] = 0;
    _y[0] = 0;
    _y[1] = 1;
    aneg = a < 0;
    bneg = b < 0;

    a = (a < 0) ? -a : a;
    b = (b < 0) ? b : b;               // R18h positive: not normalised
    if (a == 0) {
        y = bneg ? -1 : 1;
        return b;
    }
    if (b == 0) {
        x = bneg ? -1 : 1;
        return a;
    }

    // swap arguments appropriately
    _a[0] = a;
    _a[1] = b;
    bool swap = false;
    if (b > a) {
        _a[0] = b;
        _a[1] = a;
        swap = true;
    }

    // do the work
    std::size_t i = 0;
    while (true) {
        q = _a[i] / _a[1 - i];
        if (_a[i] % _a[1 - i] == 0)
            break;
        _a[i] = _a[i] % _a[1 - i];
        _x[i] = _x[i] - q * _x[1 - i];
        _y[i] = _y[i] - q * _y[1 - i];
        i = 1 - i;
    }

    // did we swap arguments?
    if (swap) {
        x = _y[1 - i] * (aneg ? -1 : 1);
        y = _x[1 - i] * (bneg ? -1 : 1);
    } else {
        x = _x[1 - i] * (aneg ? -1 : 1);
        y = _y[1 - i] * (bneg ? -1 : 1);
    }

#ifdef PARMCB_INVARIANTS_CHECK
    assert(_a[1 - i] == ((aneg) ? (-a) : (a)) * x + ((bneg) ? (-b) : (b)) * y);
#endif

    return _a[1 - i];
}

// compute multiplication inverse of an element
template<class T>
T fp<T>::get_mult_inverse(T &a, T &p) {
#ifdef PARMCB_INVARIANTS_CHECK
    if ( p <= 0 )
        throw new std::runtime_error("p is not positive");
#endif

    T x, y;
    if (fp<T>::ext_gcd(a, p, x, y) != 1) {
        throw new std::runtime_error("mult inverse does not exist");
    }
    return y;
}

template<class T>
class primes {

public:
    // check if a number is prime
    static bool is_prime(const T &p) {
        if (p == T(1))
            return true;
        T t = T(2);
#ifdef PARMCB_INVARIANTS_CHECK
         assert( p >= t );
 #endif
        if (p % 2 == 0)
            return false;
        T zero = T(0);
        T sqrtt = T(sqrt(p)) + 1;
#ifdef PARMCB_INVARIANTS_CHECK
         if ( sqrtt * sqrtt < p )
             throw new std::runtime_error("error calculating square");
#endif
        while (t * t < p) {
            if (p % t == zero)
                return false;
            t++;
        }
        return true;
    }
};

} // parmcb

#endif
