// POSITIVE EXAMPLE (deliberately broken copy): R16c must fire (0 components for an edgeless graph)
#ifndef PARMCB_DETAIL_SPANNING_FOREST_HPP_
#define PARMCB_DETAIL_SPANNING_FOREST_HPP_

//    Copyright (C) Dimitrios Michail 2019 - 2021.
// Distributed under the Boost Software License, Version 1.0.
//    (See accompanying file LICENSE_1_0.txt or copy at
//          https://www.boost.org/LICENSE_1_0.txt)

#include <map>
#include <queue>
#include <set>

#include <boost/graph/adjacency_list.hpp>

namespace parmcb {

    namespace detail {

        template<class Graph, class OutputIterator>
        std::size_t spanning_forest(const Graph &g, OutputIterator spanning_forest_edges) {

            if (boost::num_vertices(g) == 0 || boost::num_edges(g) == 0)
                return 0;

            typedef typename boost::graph_traits<Graph>::vertex_descriptor Vertex;
            typedef typename boost::graph_traits<Graph>::vertex_iterator VertexIt;
            typedef typename boost::graph_traits<Graph>::edge_descriptor Edge;

            BOOST_CONCEPT_ASSERT(( boost::VertexListGraphConcept<Graph> ));
            BOOST_CONCEPT_ASSERT(( boost::OutputIteratorConcept<OutputIterator, Edge> ));

            static std::queue<Vertex> queue;            // R07g positive: shared by all calls
            std::unordered_set<Vertex> unreached;
            VertexIt ui, uiend;
            for (boost::tie(ui, uiend) = boost::vertices(g); ui != uiend; ++ui) {
                if (boost::out_degree(*ui, g) == 1) {
                    *spanning_forest_edges++ = *boost::out_edges(*ui, g).first;
                    continue;
                }
                unreached.insert(*ui);
            }

            std::size_t c = 0;
            while (!unreached.empty()) {
                auto vi = unreached.begin();
                auto v = *vi;
                unreached.erase(vi);
                queue.push(v);

                while (!queue.empty()) {
                    auto u = queue.front();
                    queue.pop();

                    auto eiRange = boost::out_edges(u, g);
                    for (auto ei = eiRange.first; ei != eiRange.second; ++ei) {
                        auto e = *ei;
                        auto w = boost::target(e, g);
                        if (w == u) {
                            // ignore self-loop
                            continue;
                        }

                        auto wit = unreached.find(w);
                        if (wit == unreached.end()) {
                            continue;
                        }
                        unreached.erase(wit);
                        *spanning_forest_edges++ = e;
                        queue.push(w);
                    }
                }
                c++;
            }

            return c;
        }

    } // detail

} // parmcb

#endif
