// POSITIVE EXAMPLE (deliberately broken copy): R18b (value can be p) and R18c (wrong value copied) must fire
#ifndef PARMCB_SPVECFP_HPP_
#define PARMCB_SPVECFP_HPP_

//    Copyright (C) Dimitrios Michail 2019 - 2023.
// Distributed under the Boost Software License, Version 1.0.
//    (See accompanying file LICENSE_1_0.txt or copy at
//          https://www.boost.org/LICENSE_1_0.txt)

#include <vector>
#include <set>
#include <iostream>
#include <cassert>

#include <boost/tuple/tuple.hpp>
#include <boost/serialization/vector.hpp>

namespace parmcb {

template<typename P>
class SpVecFP {

public:
    typedef typename boost::tuple<std::size_t, P> entry_type;
    typedef typename std::vector<entry_type>::size_type size_type;
    typedef typename std::vector<entry_type>::const_iterator const_iterator;

    SpVecFP() :
            p(3) {
    }

    SpVecFP(const P &p) :
            p(p) {
    }

    SpVecFP(const SpVecFP<P> &v) {
        entries = v.entries;
        p = v.p;
    }

    SpVecFP(const SpVecFP<P> &&v) {
        entries = std::move(v.entries);
        p = v.p;
    }

    ~SpVecFP(void) {
    }

    SpVecFP<P>& operator=(const std::size_t &index) {
        entries.clear();
#ifdef PARMCB_INVARIANTS_CHECK
            assert(index >= 0);
#endif
        entries.push_back(boost::make_tuple(index, 1));
        return *this;
    }

    SpVecFP<P>& operator=(const SpVecFP<P> &v) {
        if (this == &v) {
            return *this;
        }
        entries = v.entries;
        p = v.p;
        return *this;
    }

    SpVecFP<P>& operator=(const SpVecFP<P> &&v) {
        if (this == &v) {
            return *this;
        }
        entries = std::move(v.entries);
        p = v.p;
        return *this;
    }

    P operator*(const SpVecFP<P> &v) const {
        P res = 0;

        auto it = entries.begin(), it_e = entries.end();
        auto v_it = v.entries.begin(), v_it_e = v.entries.end();

        while (it != it_e && v_it != v_it_e) {
            entry_type entry = *it;
            std::size_t index = boost::get<0>(entry);

            entry_type v_entry = *v_it;
            std::size_t v_index = boost::get<0>(v_entry);

            if (index > v_index) {
                v_it++;
            } else if (index < v_index) {
                it++;
            } else {
                P v = (boost::get<1>(entry) * boost::get<1>(v_entry)) % p;
                res = res + v;                      // R18g positive: accumulator not reduced per step
                it++;
                v_it++;
            }
        }
        return res;
    }

    SpVecFP<P> operator+(const SpVecFP<P> &v) const {
        SpVecFP<P> res(p);
        auto it = entries.begin(), it_e = entries.end();
        auto v_it = v.entries.begin(), v_it_e = v.entries.end();

        // now add them
        while (it != it_e && v_it != v_it_e) {
            entry_type entry = *it;
            std::size_t index = boost::get<0>(entry);
            P value = boost::get<1>(entry);

            entry_type v_entry = *v_it;
            std::size_t v_index = boost::get<0>(v_entry);
            P v_value = boost::get<1>(v_entry);

            if (index > v_index) {
                res.entries.push_back(boost::make_tuple(v_index, value));
                v_it++;
            } else if (index < v_index) {
                res.entries.push_back(boost::make_tuple(index, value));
                it++;
            } else {
                P v = value + v_value;
                if (v > p)
                    v -= p;
                if (v != 0) {
                    res.entries.push_back(boost::make_tuple(index, v));
                }
                it++;
                v_it++;
            }
        }

        // append remaining stuff
        while (it != it_e) {
            entry_type entry = *it;
            std::size_t index = boost::get<0>(entry);
            P value = boost::get<1>(entry);
            res.entries.push_back(boost::make_tuple(index, value));
            it++;
        }
        while (v_it != v_it_e) {
            entry_type v_entry = *v_it;
            std::size_t v_index = boost::get<0>(v_entry);
            P v_value = boost::get<1>(v_entry);
            res.entries.push_back(boost::make_tuple(v_index, v_value));
            v_it++;
        }

        return res;
    }

    SpVecFP<P>& operator+=(const SpVecFP<P> &v) {
        *this = *this + v;
        return *this;
    }

    SpVecFP<P> operator*(const P &a) const {
        SpVecFP<P> res(p);
        auto it = entries.begin(), it_e = entries.end();
        while (it != it_e) {
            entry_type entry = *it;
            std::size_t index = boost::get<0>(entry);
            P value = boost::get<1>(entry);

            P v = (value * a) % p;
            while (v < 0)
                v += p;   // make [-i]_p = [p-i]_p
            while (v >= p)
                v -= p; // make [i+p]_p = [i]_p

            if (v != 0) {
                res.entries.push_back(boost::make_tuple(index, v));
            }
            it++;
        }
        return res;
    }

    SpVecFP<P>& operator*=(const P &a) {
        *this = *this * a;
        return *this;
    }

    size_type size() const {
        return entries.size();
    }

    const_iterator begin() const {
        return entries.begin();
    }

    const_iterator end() const {
        return entries.end();
    }

    P prime() const {
        return p;
    }

    void clear() {
        entries.clear();
    }

private:
    friend class boost::serialization::access;

    template<class Archive>
    void serialize(Archive &ar, const unsigned int version) {
        ar & p;
        ar & entries;
    }

    std::vector<entry_type> entries;
    P p;
};

template<typename P>
std::ostream& operator<<(std::ostream &o, const SpVecFP<P> &v) {
    auto v_end = v.end();
    for (auto it = v.begin(); it != v_end; it++) {
        auto tuple = *it;
        o << "(" << boost::get<0>(tuple) << "," << boost::get<1>(tuple) << ")"
                << " ";
    }
    o << "(mod " << v.prime() << ")";
    return o;
}

} // parmcb

#endif
