// POSITIVE EXAMPLE (deliberately broken copy): R16a (second pass, unpaired store), R16b (formula), R16d (k not copied), R16e (address order) must fire
#ifndef PARMCB_FORESTINDEX_HPP_
#define PARMCB_FORESTINDEX_HPP_

//    Copyright (C) Dimitrios Michail 2019 - 2021.
// Distributed under the Boost Software License, Version 1.0.
//    (See accompanying file LICENSE_1_0.txt or copy at
//          https://www.boost.org/LICENSE_1_0.txt)

#include <vector>
#include <map>
#include <queue>
#include <set>

#include <boost/graph/graph_traits.hpp>
#include <boost/graph/graph_concepts.hpp>
#include <boost/graph/adjacency_list.hpp>
#include <boost/concept/assert.hpp>

#include <parmcb/detail/spanning_forest.hpp>

namespace parmcb {

    template<class Graph>
    class ForestIndex {

    public:
        typedef typename boost::graph_traits<Graph>::edge_descriptor Edge;
        typedef typename std::size_t size_type;

        explicit ForestIndex(const Graph &g) {
            create_index(g);
        }

        ForestIndex(const ForestIndex &ei) {
            n = ei.n;
            m = ei.m;
            index = ei.index;
            reverse_index = ei.reverse_index;
        }

        ~ForestIndex(void) {
        }

        ForestIndex& operator=(const ForestIndex &ei) {
            if (this == &ei) {
                return *this;
            }
            n = ei.n;
            m = ei.m;
            k = ei.k;
            index = ei.index;
            reverse_index = ei.reverse_index;
            return *this;
        }

        const Edge& operator()(const size_type &i) const {
            return reverse_index[i];
        }

        const size_type& operator()(const Edge &e) const {
            return index.at(e);
        }

        bool is_on_forest(const Edge &e) const {
            return index.at(e) >= cycle_space_dimension();
        }

        size_type cycle_space_dimension() const {
            return m - n + k + 1;
        }

        size_type weak_connected_components() const {
            return k;
        }

    private:
        typedef typename boost::graph_traits<Graph>::edge_iterator EdgeIt;

        size_type n = 0;
        size_type m = 0;
        size_type k = 0;
        std::map<Edge, size_type> index;
        std::vector<Edge> reverse_index;

        void create_index(const Graph &g) {
            std::set<Edge> forest;
            n = boost::num_vertices(g);
            m = boost::num_edges(g);
            k = parmcb::detail::spanning_forest(g, std::inserter(forest, forest.begin()));

            index.clear();
            reverse_index.resize(m);

            size_type csd = m - n + k; // cycle space dimension
            size_type low = 0;
            size_type high = csd;
            for (const Edge &fe : forest) {
                index[fe] = high;
                high++;
            }

            EdgeIt ei, eiend;
            for (boost::tie(ei, eiend) = boost::edges(g); ei != eiend; ++ei) {
                auto e = *ei;
                if (forest.find(e) == forest.end()) {
                    index[e] = low;
                    reverse_index[low] = e;
                    low++;
                } else {
                    index[e] = high;
                    reverse_index[high] = e;
                    high++;
                }
            }
        }

    };

} // namespace parmcb

#endif
