// positive example for R19e: an in-class static constexpr member (a declaration in C++14) that is odr-used and defined nowhere
#include <algorithm>
namespace parmcb { namespace positive {
struct with_constant {
    static constexpr int default_prime = 3;
    int clamp(int v) const { return std::min(v, default_prime); }      // std::min takes const int&: odr-use
};
} }
int use_c19_undefined(int v) { return parmcb::positive::with_constant().clamp(v); }
