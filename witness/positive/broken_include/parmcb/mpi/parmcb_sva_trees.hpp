// POSITIVE EXAMPLE (deliberately broken copy): R04g must fire (received vector never stored)
#ifndef PARMCB_MPI_SVA_TREES_HPP_
#define PARMCB_MPI_SVA_TREES_HPP_

//    Copyright (C) Dimitrios Michail 2019 - 2021.
// Distributed under the Boost Software License, Version 1.0.
//    (See accompanying file LICENSE_1_0.txt or copy at
//          https://www.boost.org/LICENSE_1_0.txt)

#include <boost/graph/graph_traits.hpp>
#include <boost/property_map/property_map.hpp>
#include <boost/tuple/detail/tuple_basic.hpp>

#include <boost/mpi/environment.hpp>
#include <boost/mpi/communicator.hpp>
#include <boost/mpi/collectives.hpp>
#include <boost/mpi/timer.hpp>

#include <cstddef>
#include <functional>
#include <iostream>
#include <iterator>
#include <limits>
#include <set>
#include <vector>
#include <cmath>

#include <parmcb/config.hpp>
#include <parmcb/forestindex.hpp>
#include <parmcb/spvecgf2.hpp>
#include <parmcb/detail/fvs.hpp>
#include <parmcb/detail/cycles.hpp>
#include <parmcb/util.hpp>
#include <parmcb/mpi/sptrees.hpp>

namespace parmcb {

    template<class Graph, class WeightMap, class CycleOutputIterator, class CyclesBuilder, bool ParallelUsingTBB>
    typename boost::property_traits<WeightMap>::value_type _mcb_sva_trees_mpi(const Graph &g, WeightMap weight_map,
            CycleOutputIterator out, boost::mpi::communicator &world) {

        typedef typename boost::graph_traits<Graph>::vertex_descriptor Vertex;
        typedef typename boost::graph_traits<Graph>::edge_descriptor Edge;
        typedef typename boost::property_traits<WeightMap>::value_type WeightType;

        boost::mpi::timer total_timer;

        /*
         * Index the graph
         */
        ForestIndex<Graph> forest_index(g);
        auto csd = forest_index.cycle_space_dimension();
#ifdef PARMCB_LOGGING
        if (world.rank() == 0) {
            std::cout << "Cycle space dimension: " << csd << std::endl;
        }
#endif

        /*
         * Initialize support vectors
         */
        std::vector<SpVecGF2<std::size_t>> support;
        for (std::size_t k = 0; k < csd; k++) {
            support.emplace_back(k);
        }

        /**
         * Scatter candidate cycles
         */
        std::vector<SerializableCandidateCycle<Graph>> candidate_cycles;
        if (world.rank() == 0) {
            /*
             * Compute all vertex-edge candidate pairs
             */
            std::vector<parmcb::SPTree<Graph, WeightMap>> trees;
            std::vector<parmcb::CandidateCycle<Graph, WeightMap>> cycles;
            CyclesBuilder cycles_builder;
            cycles_builder(g, weight_map, trees, cycles);
#ifdef PARMCB_LOGGING
            std::cout << "Total candidate cycles: " << cycles.size() << std::endl;
#endif

            std::vector<SerializableCandidateCycle<Graph>> all_candidate_cycles;
            parmcb::CandidateCycleToSerializableConverter<Graph, WeightMap> converter(trees, forest_index);
            for (const auto &c : cycles) {
                all_candidate_cycles.push_back(converter(c));
            }

            /*
             * Divide them to processes
             */
            std::size_t stride = ceil((double) all_candidate_cycles.size() / world.size());
            std::vector<std::vector<SerializableCandidateCycle<Graph>>> chunks;
            for (int p = 0; p < world.size(); p++) {
                std::size_t istart = p * stride;
                std::size_t iend = istart + stride;
                std::vector<SerializableCandidateCycle<Graph>> chunk;
                std::size_t total = all_candidate_cycles.size();
                for (std::size_t i = istart; i < iend && i < total; i++) {
                    chunk.push_back(all_candidate_cycles[i]);
                }
                chunks.push_back(chunk);
            }
            boost::mpi::scatter(world, chunks, candidate_cycles, 0);
        } else {
            boost::mpi::scatter(world, std::vector<std::vector<SerializableCandidateCycle<Graph>>> { },
                    candidate_cycles, 0);
        }

#ifdef PARMCB_LOGGING
        std::cout << "Rank " << world.rank() << " received " << candidate_cycles.size() << " candidates" << std::endl;
#endif

        /*
         * Group local candidate cycles per vertex
         */
        std::map<Vertex, std::vector<Edge>> perVertexCandidates;
        for (SerializableCandidateCycle<Graph> t : candidate_cycles) {
            Vertex s = t.v;
            Edge e = forest_index(t.e);
            if (perVertexCandidates.find(s) == perVertexCandidates.end()) {
                perVertexCandidates.insert(std::make_pair(s, std::vector<Edge> { }));
            }
            perVertexCandidates[s].push_back(e);
        }

        /*
         * Build trees for local candidate cycles
         */
        std::vector<parmcb::SPTree<Graph, WeightMap>> trees;
        std::vector<parmcb::CandidateCycle<Graph, WeightMap>> cycles;
        for (auto const &p : perVertexCandidates) {
            SPTree<Graph, WeightMap> tree(trees.size(), g, boost::get(boost::vertex_index, g), weight_map, p.first);
            trees.push_back(tree);
            std::vector<CandidateCycle<Graph, WeightMap>> tree_cycles = tree.create_candidate_cycles(p.second.begin(),
                    p.second.end());
            cycles.insert(cycles.end(), tree_cycles.begin(), tree_cycles.end());
        }
#ifdef PARMCB_LOGGING
        std::cout << "Total candidate cycles: " << cycles.size() << std::endl;
#endif
        const bool sorted_cycles = true;
        if (sorted_cycles) {
            // sort
            std::sort(cycles.begin(), cycles.end(), [](const auto &a, const auto &b) {
                return a.weight() < b.weight();
            });
        }
        ShortestOddCycleLookup<Graph, WeightMap, ParallelUsingTBB> cycle_lookup(g, weight_map, trees, cycles,
                sorted_cycles);

        /*
         * Main loop
         */
        WeightType mcb_weight = WeightType();
        for (std::size_t k = 0; k < csd; k++) {
#ifdef PARMCB_LOGGING
            if (k % 250 == 0) {
                std::cout << "Rank " << world.rank() << " at cycle " << k << std::endl;
            }
#endif

            // broadcast support vector
            if (world.rank() == 0) {
                boost::mpi::broadcast(world, support[k], 0);
            } else {
                SpVecGF2<std::size_t> received;
                boost::mpi::broadcast(world, received, 0);
            }

            //std::cout << "Rank " << world.rank() << " has support = " << support[k] << std::endl;

            std::set<Edge> signed_edges;
            convert_edges(support[k], std::inserter(signed_edges, signed_edges.end()), forest_index);

            std::tuple<std::set<Edge>, WeightType, bool> best_local_cycle = cycle_lookup(signed_edges);

            std::vector<typename ForestIndex<Graph>::size_type> best_local_cycle_as_indices;
            convert_edges(std::get<0>(best_local_cycle),
                    std::inserter(best_local_cycle_as_indices, best_local_cycle_as_indices.end()), forest_index);
            SerializableMinOddCycle<Graph, WeightMap> local_min_odd_cycle(best_local_cycle_as_indices,
                    std::get<1>(best_local_cycle), std::get<2>(best_local_cycle));
            SerializableMinOddCycle<Graph, WeightMap> global_min_odd_cycle;

            boost::mpi::reduce(world, local_min_odd_cycle, global_min_odd_cycle,
                    SerializableMinOddCycleMinOp<Graph, WeightMap>(), 0);

            if (world.rank() == 0) {
                std::set<std::size_t> cyclek;
                for (std::size_t e : global_min_odd_cycle.edges) {
                    cyclek.insert(e);
                }
                for (std::size_t l = k + 1; l < csd; l++) {
                    if (support[l] * cyclek == 1) {
                        support[l] += support[k];
                    }
                }

                std::list<Edge> cyclek_edgelist;
                convert_edges(global_min_odd_cycle.edges, std::inserter(cyclek_edgelist, cyclek_edgelist.end()),
                        forest_index);
                mcb_weight += global_min_odd_cycle.weight;
                *out++ = cyclek_edgelist;
            }
        }

#ifdef PARMCB_LOGGING
        if (world.rank() == 0) {
            std::cout << "Total time: " << total_timer.elapsed() << " (sec)" << std::endl;
        }
#endif

        return mcb_weight;

    }

    template<class Graph, class WeightMap, class CycleOutputIterator>
    typename boost::property_traits<WeightMap>::value_type mcb_sva_fvs_trees_mpi(const Graph &g, WeightMap weight_map,
            CycleOutputIterator out, boost::mpi::communicator &world) {
        return _mcb_sva_trees_mpi<Graph, WeightMap, CycleOutputIterator,
                parmcb::detail::FVSCyclesBuilder<Graph, WeightMap>, false>(g, weight_map, out, world);
    }

    template<class Graph, class WeightMap, class CycleOutputIterator>
    typename boost::property_traits<WeightMap>::value_type mcb_sva_fvs_trees_tbb_mpi(const Graph &g,
            WeightMap weight_map, CycleOutputIterator out, boost::mpi::communicator &world) {
        return _mcb_sva_trees_mpi<Graph, WeightMap, CycleOutputIterator,
                parmcb::detail::FVSCyclesBuilder<Graph, WeightMap>, true>(g, weight_map, out, world);
    }

    template<class Graph, class WeightMap, class CycleOutputIterator>
    typename boost::property_traits<WeightMap>::value_type mcb_sva_iso_trees_mpi(const Graph &g, WeightMap weight_map,
            CycleOutputIterator out, boost::mpi::communicator &world) {
        return _mcb_sva_trees_mpi<Graph, WeightMap, CycleOutputIterator,
                parmcb::detail::ISOCyclesBuilder<Graph, WeightMap>, false>(g, weight_map, out, world);
    }

    template<class Graph, class WeightMap, class CycleOutputIterator>
    typename boost::property_traits<WeightMap>::value_type mcb_sva_iso_trees_tbb_mpi(const Graph &g,
            WeightMap weight_map, CycleOutputIterator out, boost::mpi::communicator &world) {
        return _mcb_sva_trees_mpi<Graph, WeightMap, CycleOutputIterator,
                parmcb::detail::ISOCyclesBuilder<Graph, WeightMap>, true>(g, weight_map, out, world);
    }

} // namespace mcb

#endif
