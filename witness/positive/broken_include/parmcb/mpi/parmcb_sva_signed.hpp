// POSITIVE EXAMPLE (deliberately broken copy): R04a (unmatched broadcast), R04b (rank-dependent return), R04c (floor stride), R04d (address order), R04h (prefix state in a slice), R04j (rank from a fresh communicator) must fire
#ifndef PARMCB_MPI_SVA_SIGNED_HPP_
#define PARMCB_MPI_SVA_SIGNED_HPP_

//    Copyright (C) Dimitrios Michail 2019 - 2021.
// Distributed under the Boost Software License, Version 1.0.
//    (See accompanying file LICENSE_1_0.txt or copy at
//          https://www.boost.org/LICENSE_1_0.txt)

#include <cstddef>
#include <functional>
#include <iostream>
#include <iterator>
#include <limits>
#include <set>
#include <vector>

#include <boost/graph/graph_traits.hpp>
#include <boost/property_map/property_map.hpp>
#include <boost/tuple/detail/tuple_basic.hpp>

#include <boost/mpi/environment.hpp>
#include <boost/mpi/communicator.hpp>
#include <boost/mpi/collectives.hpp>
#include <boost/mpi/timer.hpp>

#include <tbb/concurrent_vector.h>
#include <tbb/parallel_for.h>
#include <tbb/parallel_reduce.h>

#include <parmcb/config.hpp>
#include <parmcb/detail/signed_dijkstra.hpp>
#include <parmcb/mpi/sptrees.hpp>
#include <parmcb/forestindex.hpp>
#include <parmcb/spvecgf2.hpp>
#include <parmcb/util.hpp>

namespace parmcb {

    namespace detail {

        template<class Graph, class WeightMap>
        std::tuple<std::set<typename boost::graph_traits<Graph>::edge_descriptor>,
                typename boost::property_traits<WeightMap>::value_type, bool> find_shortest_odd_cycle_mpi(
                const Graph &g, const WeightMap &weight_map,
                const std::vector<typename boost::graph_traits<Graph>::vertex_descriptor> &allVertices,
                const ForestIndex<Graph> &forest_index,
                const std::set<typename boost::graph_traits<Graph>::edge_descriptor> &signed_edges,
                boost::mpi::communicator &world) {

            typedef typename boost::graph_traits<Graph>::vertex_descriptor Vertex;
            typedef typename boost::graph_traits<Graph>::edge_descriptor Edge;
            typedef typename boost::property_traits<WeightMap>::value_type WeightType;

            std::less<WeightType> compare = std::less<WeightType>();
            std::tuple<std::set<Edge>, WeightType, bool> best = std::make_tuple(std::set<Edge> { },
                    (std::numeric_limits<WeightType>::max)(), false);
            typedef std::tuple<std::set<Edge>, WeightType, bool> cycle_t;
            auto cycle_min = [compare](const cycle_t &c1, const cycle_t &c2) {
                if (!std::get<2>(c1) || !std::get<2>(c2)) {
                    if (std::get<2>(c1)) {
                        return c1;
                    } else {
                        return c2;
                    }
                }
                // both valid, compare
                if (!compare(std::get<1>(c2), std::get<1>(c1))) {
                    return c1;
                }
                return c2;
            };

            if (signed_edges.size() == 1) {
                if (world.rank() == 0) {
                    auto se = *signed_edges.begin();
                    auto se_v = boost::source(se, g);
                    auto se_u = boost::target(se, g);
                    auto res = bidirectional_signed_dijkstra(g, weight_map, std::set<Edge> { }, signed_edges, true,
                            se_v, true, se_u, true, std::get<2>(best), std::get<1>(best));
                    if (std::get<2>(res) && std::get<0>(res).find(se) == std::get<0>(res).end()) {
                        std::get<1>(res) += boost::get(weight_map, se);
                        if (!std::get<2>(best) || compare(std::get<1>(res), std::get<1>(best))) {
                            std::get<0>(res).insert(se);
                            best = res;
                            assert(std::get<2>(best));
                        }
                    }
                }
            } else if (signed_edges.size() < boost::num_vertices(g)) {
                /*
                 * Heuristic in case number of signed edges is small compared to the number of vertices.
                 */
                std::map<Edge, std::set<Edge>> hidden_edges_per_edge;
                std::vector<Edge> signed_edges_as_vector;
                std::set<Edge> tmp_signed_edges = signed_edges;
                signed_edges_as_vector.assign(signed_edges.begin(), signed_edges.end());
                for (const Edge &se : signed_edges_as_vector) {
                    hidden_edges_per_edge.insert(std::make_pair(se, tmp_signed_edges));
                    tmp_signed_edges.erase(se);
                }

                std::vector<Edge> local_signed_edges_as_vector;
                std::size_t total = signed_edges_as_vector.size();
                std::size_t stride = ceil((double) total / world.size());
                std::size_t istart = world.rank() * stride;
                std::size_t iend = istart + stride;
                for (std::size_t i = istart; i < iend && i < total; i++) {
                    local_signed_edges_as_vector.push_back(signed_edges_as_vector[i]);
                    // R04h positive: prefix-dependent state inside the rank slice
                    hidden_edges_per_edge.insert(std::make_pair(signed_edges_as_vector[i], tmp_signed_edges));
                    tmp_signed_edges.erase(signed_edges_as_vector[i]);
                }

                std::tuple<std::set<Edge>, WeightType, bool> best_local_cycle = tbb::parallel_reduce(
                        tbb::blocked_range<std::size_t>(0, local_signed_edges_as_vector.size()),
                        std::make_tuple(std::set<Edge>(), (std::numeric_limits<WeightType>::max)(), false),
                        [&](tbb::blocked_range<std::size_t> r, auto running_min) {
                            for (std::size_t i = r.begin(); i < r.end(); i++) {
                                auto se = local_signed_edges_as_vector.at(i);
                                auto se_v = boost::source(se, g);
                                auto se_u = boost::target(se, g);
                                auto hidden_edges = hidden_edges_per_edge.at(se);
                                auto res = bidirectional_signed_dijkstra(g, weight_map, signed_edges, hidden_edges,
                                        true, se_v, true, se_u, true, std::get<2>(running_min),
                                        std::get<1>(running_min));
                                if (std::get<2>(res) && std::get<0>(res).find(se) == std::get<0>(res).end()) {
                                    std::get<1>(res) += boost::get(weight_map, se);
                                    if (!std::get<2>(running_min)
                                            || compare(std::get<1>(res), std::get<1>(running_min))) {
                                        std::get<0>(res).insert(se);
                                        running_min = res;
                                    }
                                }
                            }
                            return running_min;
                        },
                        cycle_min);

                std::vector<typename ForestIndex<Graph>::size_type> best_local_cycle_as_indices;
                convert_edges(std::get<0>(best_local_cycle),
                        std::inserter(best_local_cycle_as_indices, best_local_cycle_as_indices.end()), forest_index);
                SerializableMinOddCycle<Graph, WeightMap> local_min_odd_cycle(best_local_cycle_as_indices,
                        std::get<1>(best_local_cycle), std::get<2>(best_local_cycle));
                SerializableMinOddCycle<Graph, WeightMap> global_min_odd_cycle;

                boost::mpi::reduce(world, local_min_odd_cycle, global_min_odd_cycle,
                        SerializableMinOddCycleMinOp<Graph, WeightMap>(), 0);

                convert_edges(global_min_odd_cycle.edges, std::inserter(std::get<0>(best), std::get<0>(best).end()),
                        forest_index);
                std::get<1>(best) = global_min_odd_cycle.weight;
                std::get<2>(best) = global_min_odd_cycle.exists;
            } else {
                // split implicitly all vertices
                std::vector<Vertex> localVertices;
                std::size_t stride = ceil((double) (allVertices.size() / world.size()));
                std::size_t istart = boost::mpi::communicator().rank() * stride;   // R04j positive: world rank, collectives run on `world` parameter
                std::size_t iend = istart + stride;
                std::size_t total = allVertices.size();
                for (std::size_t i = istart; i < iend && i < total; i++) {
                    localVertices.push_back(allVertices[i]);
                }

                std::tuple<std::set<Edge>, WeightType, bool> best_local_cycle = tbb::parallel_reduce(
                        tbb::blocked_range<std::size_t>(0, localVertices.size()),
                        std::make_tuple(std::set<Edge>(), (std::numeric_limits<WeightType>::max)(), false),
                        [&](tbb::blocked_range<std::size_t> r, auto running_min) {
                            for (std::size_t i = r.begin(); i < r.end(); i++) {
                                auto v = localVertices[i];
                                const bool use_hidden_edges = false;
                                auto res = bidirectional_signed_dijkstra(g, weight_map, signed_edges,
                                        std::set<Edge> { }, use_hidden_edges, v, true, v, false,
                                        std::get<2>(running_min), std::get<1>(running_min));
                                if (std::get<2>(res)
                                        && (!std::get<2>(running_min)
                                                || compare(std::get<1>(res), std::get<1>(running_min)))) {
                                    running_min = res;
                                }
                            }
                            return running_min;
                        },
                        cycle_min);

                std::vector<typename ForestIndex<Graph>::size_type> best_local_cycle_as_indices;
                convert_edges(std::get<0>(best_local_cycle),
                        std::inserter(best_local_cycle_as_indices, best_local_cycle_as_indices.end()), forest_index);
                SerializableMinOddCycle<Graph, WeightMap> local_min_odd_cycle(best_local_cycle_as_indices,
                        std::get<1>(best_local_cycle), std::get<2>(best_local_cycle));
                SerializableMinOddCycle<Graph, WeightMap> global_min_odd_cycle;

                boost::mpi::reduce(world, local_min_odd_cycle, global_min_odd_cycle,
                        SerializableMinOddCycleMinOp<Graph, WeightMap>(), 0);

                convert_edges(global_min_odd_cycle.edges, std::inserter(std::get<0>(best), std::get<0>(best).end()),
                        forest_index);
                std::get<1>(best) = global_min_odd_cycle.weight;
                std::get<2>(best) = global_min_odd_cycle.exists;
            }

            return best;
        }

    } // detail

    template<class Graph, class WeightMap, class CycleOutputIterator>
    typename boost::property_traits<WeightMap>::value_type mcb_sva_signed_mpi(const Graph &g, WeightMap weight_map,
            CycleOutputIterator out, boost::mpi::communicator &world) {

        typedef typename boost::graph_traits<Graph>::vertex_descriptor Vertex;
        typedef typename boost::graph_traits<Graph>::vertex_iterator VertexIt;
        typedef typename boost::graph_traits<Graph>::edge_descriptor Edge;
        typedef typename boost::property_traits<WeightMap>::value_type WeightType;

        /*
         * Index the graph
         */
        ForestIndex<Graph> forest_index(g);
        auto csd = forest_index.cycle_space_dimension();
        std::vector<Vertex> vertices;
        {
            VertexIt vi, viend;
            for (boost::tie(vi, viend) = boost::vertices(g); vi != viend; ++vi) {
                vertices.push_back(*vi);
            }
        }

        /*
         * Initialize support vectors
         */
        tbb::concurrent_vector<SpVecGF2<std::size_t>> support;
        tbb::parallel_for(tbb::blocked_range<std::size_t>(0, csd), [&](const tbb::blocked_range<std::size_t> &r) {
            for (std::size_t i = r.begin(); i != r.end(); ++i) {
                support.push_back(SpVecGF2<std::size_t> { i });
            }
        });

        boost::mpi::timer total_timer;

        /*
         * Main loop
         */
        WeightType mcb_weight = WeightType();
        for (std::size_t k = 0; k < csd; k++) {
#ifdef PARMCB_LOGGING
            if (k % 250 == 0) {
                std::cout << "Rank " << world.rank() << " at cycle " << k << std::endl;
            }
#endif

            // TODO: check if sparsest support heuristic makes sense here

            // broadcast support vector
            if (world.rank() == 0) {
                boost::mpi::broadcast(world, support[k], 0);
            } else {
                if (k == 0) {
                    return mcb_weight;
                }
            }

            std::set<Edge> signed_edges;
            convert_edges(support[k], std::inserter(signed_edges, signed_edges.end()), forest_index);
            std::tuple<std::set<Edge>, WeightType, bool> best = parmcb::detail::find_shortest_odd_cycle_mpi(g, weight_map,
                    vertices, forest_index, signed_edges, world);

            if (world.rank() == 0) {
                /*
                 * Update support vectors
                 */
                std::set<std::size_t> cyclek;
                convert_edges(std::get<0>(best), std::inserter(cyclek, cyclek.end()), forest_index);
                tbb::parallel_for(tbb::blocked_range<std::size_t>(k + 1, csd),
                        [&](const tbb::blocked_range<std::size_t> &r) {
                            auto e = r.end();
                            for (std::size_t i = r.begin(); i != e; ++i) {
                                if (support[i] * cyclek == 1) {
                                    support[i] += support[k];
                                }
                            }
                        });

                /*
                 * Output cycles
                 */
                std::list<Edge> cyclek_edgelist;
                std::copy(std::get<0>(best).begin(), std::get<0>(best).end(), std::back_inserter(cyclek_edgelist));
                *out++ = cyclek_edgelist;
                mcb_weight += std::get<1>(best);
            }

        }

        if (world.rank() == 0) {
#ifdef PARMCB_LOGGING
            std::cout << "Total time: " << total_timer.elapsed() << " (sec)" << std::endl;
#endif
        }

        return mcb_weight;
    }

} // namespace parmcb

#endif
