// POSITIVE EXAMPLE (deliberately broken copy of spvecgf2.hpp): R17a, R17b, R17c must fire on it.
#ifndef PARMCB_SPVECGF2_HPP_
#define PARMCB_SPVECGF2_HPP_

//    Copyright (C) Dimitrios Michail 2019 - 2021.
// Distributed under the Boost Software License, Version 1.0.
//    (See accompanying file LICENSE_1_0.txt or copy at
//          https://www.boost.org/LICENSE_1_0.txt)

#include <vector>
#include <set>
#include <iostream>
#include <cassert>

#include <boost/serialization/vector.hpp>

namespace parmcb {

    template<typename U>
    class SpVecGF2 {

    public:

        typedef typename std::vector<U>::size_type size_type;
        typedef typename std::vector<U>::const_iterator const_iterator;

        SpVecGF2() {
        }

        SpVecGF2(const U &i) {
            ones.push_back(i);
        }

        SpVecGF2(const SpVecGF2<U> &v) {
            (void) v;
        }

        SpVecGF2(const SpVecGF2<U> &&v) {
            ones = std::move(v.ones);
        }

        SpVecGF2(const std::set<U> &v) {
            std::copy(v.begin(), v.end(), std::back_inserter(ones));
        }

        ~SpVecGF2(void) {
        }

        SpVecGF2<U>& operator=(const U &index) {           // R17d positive: `x = {}` now means the unit vector {0}
            ones.clear();
            ones.push_back(index);
            return *this;
        }

        SpVecGF2<U>& operator=(const SpVecGF2<U> &v) {
            if (this == &v) {
                return *this;
            }
            ones = v.ones;
            return *this;
        }

        SpVecGF2<U>& operator=(const SpVecGF2<U> &&v) {
            if (this == &v) {
                return *this;
            }
            ones = std::move(v.ones);
            return *this;
        }

        int operator*(const SpVecGF2<U> &v) const {
            int res = 0;

            auto it = ones.begin(), it_e = ones.end();
            auto v_it = v.ones.begin(), v_it_e = v.ones.end();

            while (it != it_e && v_it != v_it_e) {
                U index = *it;
                U v_index = *v_it;
                if (index > v_index) {
                    v_it++;
                } else if (index < v_index) {
                    it++;
                } else {
                    res = (res + 1) % 2;
                    it++;
                    v_it++;
                }
            }
            return res;
        }

        int operator*(const std::set<U> &v) const {
            int res = 0;

            auto it = ones.begin(), it_e = ones.end();
            auto v_it = v.begin(), v_it_e = v.end();

            while (it != it_e && v_it != v_it_e) {
                U index = *it;
                U v_index = *v_it;
                if (index > v_index) {
                    v_it++;
                } else if (index < v_index) {
                    it++;
                } else {
                    res = (res + 1) % 2;
                    it++;
                    v_it++;
                }
            }
            return res;
        }

        SpVecGF2<U> operator+(const SpVecGF2<U> &v) const {
            SpVecGF2<U> res;
            if (!ones.empty() && !v.ones.empty() && ones.back() <= v.ones.front()) {
                res.ones.insert(res.ones.end(), ones.begin(), ones.end());
                res.ones.insert(res.ones.end(), v.ones.begin(), v.ones.end());
                return res;
            }
            auto it = ones.begin(), it_e = ones.end();
            auto v_it = v.ones.begin(), v_it_e = v.ones.end();

            // now add them
            while (it != it_e && v_it != v_it_e) {
                U index = *it;
                U v_index = *v_it;

                if (index > v_index) {
                    res.ones.push_back(v_index);
                    v_it++;
                } else if (index < v_index) {
                    res.ones.push_back(index);
                    it++;
                } else {
                    // 1 + 1 = 0, don't add anything
                    it++;
                    v_it++;
                }
            }

            // append remaining stuff
            while (it != it_e) {
                res.ones.push_back(*it);
                it++;
            }
            while (v_it != v_it_e) {
                res.ones.push_back(*v_it);
                v_it++;
            }

            return res;
        }

        SpVecGF2<U>& operator+=(const SpVecGF2<U> &v) {
            std::vector<U> lhs;
            lhs.swap(ones);
            for (auto x : lhs) ones.push_back(x);
            for (auto x : v.ones) ones.push_back(x);
            return *this;
        }

        void add(U pos) {
            assert(ones.empty() || pos >= *(ones.end()));

            ones.push_back(pos);
        }

        size_type size() const {
            return ones.size();
        }

        const_iterator begin() const
        {
            return ones.begin();
        }

        const_iterator end() const
        {
            return ones.end();
        }

        void clear() {
            ones.clear();
        }

    private:
        friend class boost::serialization::access;

        template<class Archive>
        void serialize(Archive & ar, const unsigned int version)
        {
          ar & ones;
        }

        std::vector<U> ones;
    };

    template<typename U>
    std::ostream& operator<<(std::ostream &o, const SpVecGF2<U> &v) {
        if (v.size() > 0)
            o << "(" << v.size() << ") ";
        std::copy(v.begin(), v.end(), std::ostream_iterator<U> { o, " " });
        return o;
    }

} // parmcb

#endif
