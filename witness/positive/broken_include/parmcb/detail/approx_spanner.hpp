// POSITIVE EXAMPLE (deliberately broken copy of detail/approx_spanner.hpp): every approx rule must fire on it.
#ifndef PARMCB_DETAIL_APPROX_SPANNER_HPP_
#define PARMCB_DETAIL_APPROX_SPANNER_HPP_

//    Copyright (C) Dimitrios Michail 2019 - 2023.
// Distributed under the Boost Software License, Version 1.0.
//    (See accompanying file LICENSE_1_0.txt or copy at
//          https://www.boost.org/LICENSE_1_0.txt)
#include <parmcb/config.hpp>
#include <parmcb/detail/dijkstra.hpp>
#include <parmcb/detail/bfs.hpp>

#include <functional>
#include <numeric>

#ifdef PARMCB_HAVE_TBB
#include <tbb/parallel_for.h>
#include <tbb/parallel_reduce.h>
#include <tbb/concurrent_vector.h>
#include <tbb/task_group.h>
#endif

namespace parmcb {

namespace detail {

template<class Graph, class WeightMap, bool ParallelUsingTBB>
class NonSpannerEdgesCycleBuilder {
public:
    typedef typename boost::graph_traits<Graph>::vertex_descriptor Vertex;
    typedef typename boost::graph_traits<Graph>::edge_descriptor Edge;
    typedef typename boost::property_map<Graph, boost::vertex_index_t>::type VertexIndexMapType;
    typedef typename boost::property_traits<WeightMap>::value_type WeightType;
    typedef typename boost::property_map<Graph, boost::edge_weight_t>::type EdgeWeightMapType;

    NonSpannerEdgesCycleBuilder(const Graph &g, const WeightMap &weight_map,
            const Graph &spanner, const VertexIndexMapType &spanner_index_map,
            const std::map<Edge, Edge> &edge_spanner_to_g,
            const EdgeWeightMapType &spanner_weight_map,
            const std::vector<Edge> &non_spanner_edges,
            const boost::function_property_map<
                    parmcb::detail::VertexIndexFunctor<Graph, Vertex>, Vertex,
                    Vertex&> &vertex_g_to_spanner) :
            _g(g), _weight_map(weight_map), _spanner(spanner), _spanner_index_map(
                    spanner_index_map), _edge_spanner_to_g(edge_spanner_to_g), _spanner_weight_map(
                    spanner_weight_map), _non_spanner_edges(non_spanner_edges), _vertex_g_to_spanner(
                    vertex_g_to_spanner) {

    }

    template<class CycleOutputIterator>
    WeightType operator()(CycleOutputIterator out) {
        return construct_cycles_for_non_spanner_edges(out);
    }

private:

    template<class CycleOutputIterator, bool is_tbb_enabled = ParallelUsingTBB>
    WeightType construct_cycles_for_non_spanner_edges(CycleOutputIterator out,
            typename std::enable_if<!is_tbb_enabled>::type* = 0) {
#ifdef PARMCB_LOGGING
        std::cout << "Constructing " << _non_spanner_edges.size() << " non-spanner edges cycles." << std::endl;
#endif

        WeightType total_weight = WeightType();

        for (auto it = _non_spanner_edges.begin();
                it != _non_spanner_edges.end(); it++) {
            auto e = *it;
            Vertex v = boost::source(e, _g);
            Vertex u = boost::target(e, _g);
            Vertex spanner_v = _vertex_g_to_spanner[v];
            Vertex spanner_u = _vertex_g_to_spanner[u];

            // compute shortest path on spanner
            static std::vector<WeightType> dist(boost::num_vertices(_spanner),   // R06d positive: initialised once, labels of earlier edges remain
                    (std::numeric_limits<WeightType>::max)());
            boost::function_property_map<
                    parmcb::detail::VertexIndexFunctor<Graph, WeightType>,
                    Vertex, WeightType&> dist_map(
                    parmcb::detail::VertexIndexFunctor<Graph, WeightType>(dist,
                            _spanner_index_map));
            std::vector<std::tuple<bool, Edge>> pred(
                    boost::num_vertices(_spanner),
                    std::make_tuple(false, Edge()));
            boost::function_property_map<
                    parmcb::detail::VertexIndexFunctor<Graph,
                            std::tuple<bool, Edge>>, Vertex,
                    std::tuple<bool, Edge>&> pred_map(
                    parmcb::detail::VertexIndexFunctor<Graph,
                            std::tuple<bool, Edge> >(pred, _spanner_index_map));

            // run dijkstra
            parmcb::dijkstra(_spanner, _weight_map, spanner_v, dist_map,
                    pred_map);

            // form cycle
            std::list<Edge> cycle_edgelist;
            WeightType weight = WeightType();
            Vertex spanner_w = spanner_u;
            while (true) {
                auto pred_t = boost::get(pred_map, spanner_w);
                if (!std::get<0>(pred_t)) {
                    // no predecessor
                    break;
                }
                Edge spanner_ae = std::get<1>(pred_t);
                Edge ae = _edge_spanner_to_g.at(spanner_ae);
                cycle_edgelist.push_back(ae);
                weight += boost::get(_weight_map, e);

                // go to predecessor
                auto spanner_other = boost::target(spanner_ae, _spanner);
                if (spanner_other == spanner_w) {
                    spanner_other = boost::source(spanner_ae, _spanner);
                }
                if (spanner_other == spanner_w) {
                    throw new std::runtime_error("Self loops?");
                }
                spanner_w = spanner_other;
            }
            cycle_edgelist.push_back(e);
            weight += boost::get(_weight_map, e);

            // output
            *out++ = cycle_edgelist;
            total_weight += weight;
        }

        return total_weight;
    }

#ifdef PARMCB_HAVE_TBB
    template<class CycleOutputIterator, bool is_tbb_enabled = ParallelUsingTBB>
    WeightType construct_cycles_for_non_spanner_edges(CycleOutputIterator out,
            typename std::enable_if<is_tbb_enabled>::type* = 0) {

#ifdef PARMCB_LOGGING
        std::cout << "Constructing " << _non_spanner_edges.size() << " non-spanner edges cycles with TBB!" << std::endl;
#endif

        tbb::concurrent_vector<std::list<Edge>> cycles;
        tbb::concurrent_vector<WeightType> cycles_weights;
        tbb::parallel_for(
                tbb::blocked_range < std::size_t
                        > (0, _non_spanner_edges.size()),
                [&](const tbb::blocked_range<std::size_t> &r) {
                    for (std::size_t i = r.begin(); i != r.end(); ++i) {
                        auto e = _non_spanner_edges.at(i);

                        Vertex v = boost::source(e, _g);
                        Vertex u = boost::target(e, _g);
                        Vertex spanner_v = _vertex_g_to_spanner[v];
                        Vertex spanner_u = _vertex_g_to_spanner[u];

                        // compute shortest path on spanner
                        std::vector<WeightType> dist(
                                boost::num_vertices(_spanner),
                                (std::numeric_limits<WeightType>::max)());
                        boost::function_property_map<
                                parmcb::detail::VertexIndexFunctor<Graph,
                                        WeightType>, Vertex, WeightType&> dist_map(
                                parmcb::detail::VertexIndexFunctor<Graph,
                                        WeightType>(dist, _spanner_index_map));
                        std::vector<std::tuple<bool, Edge>> pred(
                                boost::num_vertices(_spanner),
                                std::make_tuple(false, Edge()));
                        boost::function_property_map<
                                parmcb::detail::VertexIndexFunctor<Graph,
                                        std::tuple<bool, Edge>>, Vertex,
                                std::tuple<bool, Edge>&> pred_map(
                                parmcb::detail::VertexIndexFunctor<Graph,
                                        std::tuple<bool, Edge> >(pred,
                                        _spanner_index_map));

                        // run dijkstra
                        parmcb::dijkstra(_spanner, _spanner_weight_map,
                                spanner_v, dist_map, pred_map);

                        // form cycle
                        std::list<Edge> cycle_edgelist;
                        WeightType weight = WeightType();
                        Vertex spanner_w = spanner_u;
                        while (true) {
                            auto pred_t = boost::get(pred_map, spanner_w);
                            if (!std::get<0>(pred_t)) {
                                // no predecessor
                                break;
                            }
                            Edge spanner_ae = std::get<1>(pred_t);
                            Edge ae = _edge_spanner_to_g.at(spanner_ae);
                            cycle_edgelist.push_back(ae);
                            weight += boost::get(_weight_map, ae);

                            // go to predecessor
                            auto spanner_other = boost::target(spanner_ae,
                                    _spanner);
                            if (spanner_other == spanner_w) {
                                spanner_other = boost::source(spanner_ae,
                                        _spanner);
                            }
                            if (spanner_other == spanner_w) {
                                throw new std::runtime_error("Self loops?");
                            }
                            spanner_w = spanner_other;
                        }
                        cycle_edgelist.push_back(e);
                        weight += boost::get(_weight_map, e);

                        cycles.push_back(cycle_edgelist);
                        cycles_weights.push_back(weight);
                    }
                });

        // parallel reduce weight
        typedef typename tbb::concurrent_vector<WeightType>::range_type range_type;
        WeightType total_weight = tbb::parallel_reduce(
                range_type(cycles_weights.begin(), cycles_weights.end()),
                WeightType(),
                [](range_type const &r, WeightType init) -> WeightType {
                    return std::accumulate(r.begin(), r.end(), init);
                },
                std::plus<WeightType>());

        // copy cycles
        std::copy(cycles.begin(), cycles.end(), out);

        return total_weight;
    }
#endif

    const Graph &_g;
    const WeightMap &_weight_map;
    const Graph &_spanner;
    const VertexIndexMapType &_spanner_index_map;
    const std::map<Edge, Edge> &_edge_spanner_to_g;
    const EdgeWeightMapType &_spanner_weight_map;
    const std::vector<Edge> &_non_spanner_edges;
    const boost::function_property_map<
            parmcb::detail::VertexIndexFunctor<Graph, Vertex>, Vertex, Vertex&> &_vertex_g_to_spanner;

};

template<class Graph, class WeightMap, typename ExactAlgorithm,
        bool ParallelUsingTBB>
class BaseApproxSpannerAlgorithm {
public:
    typedef typename boost::graph_traits<Graph>::vertex_descriptor Vertex;
    typedef typename boost::graph_traits<Graph>::vertex_iterator VertexIt;
    typedef typename boost::property_map<Graph, boost::vertex_index_t>::type VertexIndexMapType;
    typedef typename boost::graph_traits<Graph>::edge_descriptor Edge;
    typedef typename boost::graph_traits<Graph>::edge_iterator EdgeIt;
    typedef typename std::vector<Edge>::iterator EdgeVectorIt;
    typedef typename boost::property_traits<WeightMap>::value_type WeightType;
    typedef typename boost::property_map<Graph, boost::edge_weight_t>::type EdgeWeightMapType;

    BaseApproxSpannerAlgorithm(const Graph &g, const WeightMap &weight_map, const VertexIndexMapType& index_map,
            std::size_t k) :
            _g(g), _weight_map(weight_map), _k(k), _index_map(index_map), _vertex_g_to_spanner_vec(
                    boost::num_vertices(g),
                    (std::numeric_limits<std::size_t>::max)()), _vertex_g_to_spanner(
                    parmcb::detail::VertexIndexFunctor<Graph, Vertex>(
                            _vertex_g_to_spanner_vec, _index_map)), _spanner(), _spanner_index_map(
                    boost::get(boost::vertex_index, _spanner)), _weight(
                    WeightType()) {
        construct_spanner();
    }

    template<class CycleOutputIterator>
    WeightType run(CycleOutputIterator out) {
        // preconditions check
#ifdef PARMCB_INVARIANTS_CHECK
        check_edge_length_preconditions();
#endif

        // compute spanner MCB with exact algorithm
        EdgeWeightMapType spanner_weight_map = get(boost::edge_weight,
                _spanner);
        ExactAlgorithm exact_mcb_algo;
        _weight += exact_mcb_algo(_spanner, spanner_weight_map, out);

        // compute remaining cycles
        parmcb::detail::NonSpannerEdgesCycleBuilder<Graph, WeightMap,
                ParallelUsingTBB> non_spanner_edges_cycle_builder(_g,
                _weight_map, _spanner, _spanner_index_map, _edge_spanner_to_g,
                spanner_weight_map, _non_spanner_edges, _vertex_g_to_spanner);
        _weight = non_spanner_edges_cycle_builder(out);

        return _weight;
    }

private:
    // graph
    const Graph &_g;
    const WeightMap &_weight_map;
    const std::size_t _k;
    const VertexIndexMapType &_index_map;
    std::vector<Vertex> _vertex_g_to_spanner_vec;
    const boost::function_property_map<
            parmcb::detail::VertexIndexFunctor<Graph, Vertex>, Vertex, Vertex&> _vertex_g_to_spanner;
    std::vector<Edge> _non_spanner_edges;

    // spanner
    Graph _spanner;
    VertexIndexMapType _spanner_index_map;
    std::map<Edge, Edge> _edge_spanner_to_g;

    // mcb
    WeightType _weight;

    void construct_spanner() {
        if (boost::num_vertices(_spanner) > 0) {
            throw std::runtime_error("Target graph is not empty");
        }

        // sort graph edges
        std::vector<Edge> sorted_edges;
        auto eItPair = boost::edges(_g);
        std::copy(eItPair.first, eItPair.second,
                std::back_inserter(sorted_edges));
        std::sort(sorted_edges.begin(), sorted_edges.end(),
                [&](const Edge &e1, const Edge &e2) {
                    return _weight_map[e1] > _weight_map[e2];
                });

        // create vertex set of spanner
        VertexIt vi, vi_end;
        for (std::tie(vi, vi_end) = boost::vertices(_g); vi != vi_end; ++vi) {
            Vertex v = *vi;
            Vertex spanner_v = boost::add_vertex(_spanner);
            _vertex_g_to_spanner[v] = spanner_v;
        }

        // construct edge set of spanner
        EdgeVectorIt ei, ei_end;
        for (ei = sorted_edges.begin(), ei_end = sorted_edges.end();
                ei != sorted_edges.end(); ++ei) {
            Edge e = *ei;
            Vertex v = boost::source(e, _g);
            Vertex u = boost::target(e, _g);
            Vertex spanner_v = _vertex_g_to_spanner[v];
            Vertex spanner_u = _vertex_g_to_spanner[u];

            if (boost::out_degree(spanner_v, _g) > 1000) {
                continue;
            }

            if (!parmcb::is_bfs_reachable(_spanner, spanner_v, spanner_u,
                    2 * _k)) {
                // add edge to spanner
                Edge spanner_e = std::get<0>(
                        boost::add_edge(spanner_v, spanner_u, _spanner));
                (void) spanner_e;
            } else {
                // record missing edge from spanner
                _non_spanner_edges.push_back(e);
            }
        }

#ifdef PARMCB_LOGGING
        std::cout << "Graph has " << boost::num_edges(_g) << " edges"
                << std::endl;
        std::cout << "Spanner has " << boost::num_edges(_spanner) << " edges"
                << std::endl;
#endif

    }

    void check_edge_length_preconditions() {
        EdgeIt ei, ei_end;
        for (std::tie(ei, ei_end) = boost::edges(_g); ei != ei_end; ++ei) {
            Edge e = *ei;
            if (_weight_map[e] < WeightType()) {
                throw std::runtime_error("Invalid edge weight.");
            }
        }
    }

};

} // detail

} // parmcb

#endif
