// POSITIVE EXAMPLE (deliberately broken copy): R05e must fire on the early return.
#ifndef PARMCB_APPROX_SVA_SIGNED_HPP_
#define PARMCB_APPROX_SVA_SIGNED_HPP_

//    Copyright (C) Dimitrios Michail 2019 - 2023.
// Distributed under the Boost Software License, Version 1.0.
//    (See accompanying file LICENSE_1_0.txt or copy at
//          https://www.boost.org/LICENSE_1_0.txt)

#include <parmcb/detail/approx_spanner.hpp>
#include <parmcb/parmcb_sva_signed.hpp>

namespace parmcb {

namespace detail {

template<class Graph, class WeightMap, class CycleOutputIterator>
struct mcb_sva_signed {
    template<class OutputIterator>
    typename boost::property_traits<WeightMap>::value_type operator()(
            const Graph &g, const WeightMap &weight, OutputIterator out) {
        if (boost::num_edges(g) < boost::num_vertices(g)) {
            return 0;
        }
        return parmcb::mcb_sva_signed(g, weight, out);
    }
};

} // detail

template<class Graph, class WeightMap, class CycleOutputIterator>
typename boost::property_traits<WeightMap>::value_type approx_mcb_sva_signed(
        const Graph &g, const WeightMap &weight, std::size_t k,
        CycleOutputIterator out) {

    typedef typename parmcb::detail::mcb_sva_signed<Graph,WeightMap,CycleOutputIterator> ExactAlgo;
    parmcb::detail::BaseApproxSpannerAlgorithm<Graph, WeightMap, ExactAlgo, false> algo(g, weight, boost::get(boost::vertex_index, g), k);
    return algo.run(out);
}

} // parmcb

#endif
