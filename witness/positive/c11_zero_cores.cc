// positive example for R11d: --cores=0 ("use all cores") is handed to the knob unchanged.
// Self-contained stand-ins for the parmcb names so that the rules' anchors match; never compiled into anything.
#include <cstddef>
#include <iostream>
#include <memory>
#include <boost/program_options.hpp>
#include <tbb/global_control.h>
namespace parmcb {
inline void set_global_tbb_concurrency(const std::size_t n) {
    static std::unique_ptr<oneapi::tbb::global_control> global_limit;
    global_limit.reset(new oneapi::tbb::global_control(oneapi::tbb::global_control::max_allowed_parallelism, n));
}
template<class G> double mcb_sva_signed_tbb(const G &g) { return (double) g; }
}
namespace po = boost::program_options;
int main(int argc, char *argv[]) {
    po::variables_map vm;
    po::options_description desc("usage");
    desc.add_options()("cores,c", po::value<int>()->default_value(4), "cores")("parallel,p", po::value<bool>()->default_value(true), "p");
    po::store(po::parse_command_line(argc, argv, desc), vm);
    if (vm["parallel"].as<bool>()) {
        std::size_t cores = vm["cores"].as<int>();
        parmcb::set_global_tbb_concurrency(cores);       // R11d: an explicit --cores=0 arrives here as 0
    }
    double w = 0;
    if (vm["parallel"].as<bool>()) {
        w = parmcb::mcb_sva_signed_tbb(3);
    }
    std::cout << w << std::endl;
    return 0;
}
