// positive example for the approx rules: compiled with -I witness/positive/broken_include in front of
// /repo/include, so <parmcb/detail/approx_spanner.hpp> and <parmcb/parmcb_approx_sva_signed.hpp> resolve to
// deliberately broken copies.  Never executed.
#include <list>
#include <boost/graph/adjacency_list.hpp>
#include <parmcb/parmcb_approx_sva_signed.hpp>
typedef boost::adjacency_list<boost::vecS, boost::vecS, boost::undirectedS, boost::no_property,
        boost::property<boost::edge_weight_t, double> > graph_t;
typedef boost::graph_traits<graph_t>::edge_descriptor edge_t;
double use(graph_t &g, std::list<std::list<edge_t>> &cycles) {
    return parmcb::approx_mcb_sva_signed(g, get(boost::edge_weight, g), 2, std::back_inserter(cycles));
}
