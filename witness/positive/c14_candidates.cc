// positive example for the C14 rules; compiled with witness/positive/broken_include3 first.  Never executed.
#include <vector>
#include <boost/graph/adjacency_list.hpp>
#include <parmcb/sptrees.hpp>
#include <parmcb/detail/cycles.hpp>
typedef boost::adjacency_list<boost::vecS, boost::vecS, boost::undirectedS, boost::no_property, boost::property<boost::edge_weight_t, double> > graph_t;
typedef boost::property_map<graph_t, boost::edge_weight_t>::const_type wmap_t;
std::size_t use_c14(const graph_t &g) {
    wmap_t wm = get(boost::edge_weight, g);
    std::vector<parmcb::SPTree<graph_t, wmap_t>> trees;
    std::vector<parmcb::CandidateCycle<graph_t, wmap_t>> cycles;
    parmcb::detail::HortonCyclesBuilder<graph_t, wmap_t> h; h(g, wm, trees, cycles);
    parmcb::detail::FVSCyclesBuilder<graph_t, wmap_t> f; f(g, wm, trees, cycles);
    parmcb::detail::ISOCyclesBuilder<graph_t, wmap_t> i; i(g, wm, trees, cycles);
    return cycles.size();
}
