// positive example for R17a/R17b/R17c; compiled with witness/positive/broken_include first. Never executed.
#include <set>
#include <parmcb/spvecgf2.hpp>
std::size_t use_c17() {
    std::set<std::size_t> s;
    parmcb::SpVecGF2<std::size_t> a(1), b(s), c;
    parmcb::SpVecGF2<std::size_t> d(a);
    c = a + b;
    c += a;
    d = {};                 // R17d positive: with the unit-assignment overload of the broken copy this is the unit vector {0}
    return (a * b) + (a * s) + c.size() + d.size();
}

// R17e positive: cancelling equal neighbours with an erase inside an index loop skips the element that moves into the freed slot
#include <vector>
std::size_t c17_erase_skip(std::vector<std::size_t> ones) {
    for (std::size_t i = 0; i + 1 < ones.size(); i++) {
        if (ones[i] == ones[i + 1]) {
            ones.erase(ones.begin() + i, ones.begin() + i + 2);
        }
    }
    return ones.size();
}
