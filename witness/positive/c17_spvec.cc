// positive example for R17a/R17b/R17c; compiled with witness/positive/broken_include first. Never executed.
#include <set>
#include <parmcb/spvecgf2.hpp>
std::size_t use_c17() {
    std::set<std::size_t> s;
    parmcb::SpVecGF2<std::size_t> a(1), b(s), c;
    parmcb::SpVecGF2<std::size_t> d(a);
    c = a + b;
    c += a;
    d = {};                 // R17d positive: with the unit-assignment overload of the broken copy this is the unit vector {0}
    return (a * b) + (a * s) + c.size() + d.size();
}
