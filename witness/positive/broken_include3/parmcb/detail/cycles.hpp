// POSITIVE EXAMPLE (deliberately broken copy): R14c must fire (roots are not the greedy_fvs output as such)
#ifndef PARMCB_DETAIL_CYCLES_HPP_
#define PARMCB_DETAIL_CYCLES_HPP_

//    Copyright (C) Dimitrios Michail 2019 - 2021.
// Distributed under the Boost Software License, Version 1.0.
//    (See accompanying file LICENSE_1_0.txt or copy at
//          https://www.boost.org/LICENSE_1_0.txt)

#include <iostream>
#include <map>
#include <parmcb/util.hpp>
#include <parmcb/sptrees.hpp>
#include <parmcb/detail/fvs.hpp>

#include <boost/graph/connected_components.hpp>

namespace boost {

    struct bad_t {
        typedef boost::vertex_property_tag kind;
    };

    struct tree_t {
        typedef boost::vertex_property_tag kind;
    };

    struct edge_t {
        typedef boost::vertex_property_tag kind;
    };

}

namespace parmcb {

    namespace detail {

        template<class Graph, class WeightMap>
        struct HortonCyclesBuilder {

            void operator()(const Graph &g, const WeightMap &weight_map,
                    std::vector<parmcb::SPTree<Graph, WeightMap>> &trees,
                    std::vector<CandidateCycle<Graph, WeightMap>> &cycles) {
                typedef typename boost::graph_traits<Graph>::vertex_iterator VertexIt;
                VertexIt vi, viend;
                for (boost::tie(vi, viend) = boost::vertices(g); vi != viend; ++vi) {
                    auto v = *vi;
                    trees.emplace_back(trees.size(), g, boost::get(boost::vertex_index, g), weight_map, v);
                }
                for (auto &tree : trees) {
                    std::vector<CandidateCycle<Graph, WeightMap>> tree_cycles = tree.create_candidate_cycles();
                    cycles.insert(cycles.end(), tree_cycles.begin(), tree_cycles.end());
                }
            }

        };

        template<class Graph, class WeightMap>
        struct FVSCyclesBuilder {

            void operator()(const Graph &g, const WeightMap &weight_map,
                    std::vector<parmcb::SPTree<Graph, WeightMap>> &trees,
                    std::vector<CandidateCycle<Graph, WeightMap>> &cycles) {
                typedef typename boost::graph_traits<Graph>::vertex_descriptor Vertex;

                std::vector<Vertex> feedback_vertex_set;
                parmcb::greedy_fvs(g, std::back_inserter(feedback_vertex_set));
                typename boost::graph_traits<Graph>::vertex_iterator vi, viend;
                for (boost::tie(vi, viend) = boost::vertices(g); vi != viend; ++vi) {
                    trees.emplace_back(trees.size(), g, boost::get(boost::vertex_index, g), weight_map, *vi);
                }
                for (auto &tree : trees) {
                    std::vector<CandidateCycle<Graph, WeightMap>> tree_cycles = tree.create_candidate_cycles();
                    cycles.insert(cycles.end(), tree_cycles.begin(), tree_cycles.end());
                }
            }

        };

        template<class Graph, class WeightMap>
        struct ISOCyclesBuilder {

            void operator()(const Graph &g, const WeightMap &weight_map,
                    std::vector<parmcb::SPTree<Graph, WeightMap>> &trees,
                    std::vector<CandidateCycle<Graph, WeightMap>> &cycles) {
                typedef typename boost::property_map<Graph, boost::vertex_index_t>::type VertexIndexMapType;
                typedef typename boost::graph_traits<Graph>::vertex_iterator VertexIt;
                typedef typename boost::graph_traits<Graph>::edge_descriptor Edge;
                typedef typename boost::property_traits<WeightMap>::value_type WeightType;

                const VertexIndexMapType &index_map = boost::get(boost::vertex_index, g);

                /*
                 * Build all shortest path trees. Record which tree goes to which vertex.
                 */
                std::vector<std::size_t> trees_index_map(boost::num_vertices(g));
                VertexIt ui, uiend;
                std::size_t next_tree = 0;
                for (boost::tie(ui, uiend) = boost::vertices(g); ui != uiend; ++ui) {
                    auto u = *ui;
                    auto uindex = index_map[u];
                    if (boost::out_degree(u, g) == 0) {
                        next_tree++;                                   // R14e positive: counter also advances for skipped vertices
                        continue;
                    }
                    trees.emplace_back(next_tree, g, boost::get(boost::vertex_index, g), weight_map, u);
                    trees_index_map[uindex] = next_tree;
                    next_tree++;
                }

                /*
                 * Build all of Horton's candidate cycles
                 */
                std::vector<CandidateCycle<Graph, WeightMap>> allcycles;
                for (const auto &tree : trees) {
                    std::vector<CandidateCycle<Graph, WeightMap>> tree_cycles = tree.create_candidate_cycles();
                    allcycles.insert(allcycles.end(), tree_cycles.begin(), tree_cycles.end());
                }

                /*
                 * Create graph with candidate cycles
                 */
                typedef boost::property<boost::tree_t, std::size_t> TreeVertexProperty;
                typedef boost::property<boost::edge_t, Edge, TreeVertexProperty> EdgeVertexProperty;
                typedef boost::property<boost::bad_t, bool, EdgeVertexProperty> BadVertexProperty;
                typedef boost::adjacency_list<boost::vecS, boost::vecS, boost::undirectedS, BadVertexProperty> graph_t;
                typedef typename boost::graph_traits<graph_t>::vertex_descriptor vertex_descriptor;
                typedef typename boost::graph_traits<graph_t>::vertex_iterator vertex_iterator;

                graph_t cycles_g;
                typename boost::property_map<graph_t, boost::tree_t>::type tree_map = boost::get(boost::tree_t(),
                        cycles_g);
                typename boost::property_map<graph_t, boost::edge_t>::type edge_map = boost::get(boost::edge_t(),
                        cycles_g);
                typename boost::property_map<graph_t, boost::bad_t>::type bad_map = boost::get(boost::bad_t(),
                        cycles_g);

                std::map<std::pair<std::size_t, Edge>, vertex_descriptor> cycle_to_vertex;
                for (const auto &cc : allcycles) {
                    // first check that this is indeed a circuit
                    parmcb::SPTree<Graph, WeightMap> &tree_x = trees[cc.tree()];
                    auto u = boost::source(cc.edge(), g);
                    auto v = boost::target(cc.edge(), g);
                    auto first_x_u = tree_x.first(u);
                    auto first_x_v = tree_x.first(v);

                    if (first_x_u == first_x_v) {
                        continue;
                    }

                    // we are a circuit, add graph node
                    vertex_descriptor newv = boost::add_vertex(cycles_g);
                    cycle_to_vertex[std::make_pair(cc.tree(), cc.edge())] = newv;
                    boost::put(tree_map, newv, cc.tree());
                    boost::put(edge_map, newv, cc.edge());
                    boost::put(bad_map, newv, false);
                }

                vertex_iterator alli, alliend;
                for (boost::tie(alli, alliend) = boost::vertices(cycles_g); alli != alliend; ++alli) {

                    // check that we are a circuit
                    auto tree = boost::get(tree_map, *alli);
                    auto e = boost::get(edge_map, *alli);

                    parmcb::SPTree<Graph, WeightMap> &tree_x = trees[tree];
                    auto x = tree_x.source();
                    auto u = boost::source(e, g);
                    auto v = boost::target(e, g);

                    auto first_x_u = tree_x.first(u);
                    auto first_x_v = tree_x.first(v);

                    if (first_x_u == first_x_v) {
                        continue;
                    }

                    // we are a circuit
                    if (x == u) {
                        boost::add_edge(*alli, cycle_to_vertex[std::make_pair(trees_index_map[index_map[v]], e)],
                                cycles_g);
                    } else {
                        auto xprime = tree_x.first(u);
                        parmcb::SPTree<Graph, WeightMap> &tree_xprime = trees[trees_index_map[index_map[xprime]]];
                        auto first_xprime_v = tree_xprime.first(v);

                        if (x == first_xprime_v) {
                            boost::add_edge(*alli,
                                    cycle_to_vertex[std::make_pair(trees_index_map[index_map[xprime]], e)], cycles_g);
                        } else {
                            parmcb::SPTree<Graph, WeightMap> &tree_v = trees[trees_index_map[index_map[v]]];
                            auto first_v_xprime = tree_v.first(xprime);
                            if (u == first_v_xprime) {
                                boost::add_edge(*alli,
                                        cycle_to_vertex[std::make_pair(trees_index_map[index_map[v]],
                                                tree_x.node(xprime)->pred())], cycles_g);
                            } else {
                                boost::put(bad_map, *alli, true);
                            }
                        }
                    }
                }

                /*
                 * Find components
                 */
                std::vector<std::size_t> components(boost::num_vertices(cycles_g));
                boost::function_property_map<parmcb::detail::VertexIndexFunctor<graph_t, std::size_t>,
                        vertex_descriptor, std::size_t&> components_map(
                        parmcb::detail::VertexIndexFunctor<graph_t, std::size_t>(components,
                                boost::get(boost::vertex_index, cycles_g)));
                std::size_t num_components = boost::connected_components(cycles_g, components_map);

                std::vector<bool> is_bad_component(num_components, false);
                for (boost::tie(alli, alliend) = boost::vertices(cycles_g); alli != alliend; ++alli) {
                    auto v = *alli;
                    std::size_t component = boost::get(components_map, v);
                    is_bad_component[component] = is_bad_component[component] || boost::get(bad_map, v);
                }

                std::vector<bool> is_in_output(num_components, false);
                for (boost::tie(alli, alliend) = boost::vertices(cycles_g); alli != alliend; ++alli) {
                    auto v = *alli;
                    std::size_t component = boost::get(components_map, v);
                    if (!is_bad_component[component] && !is_in_output[component]) {
                        auto tree = boost::get(tree_map, v);
                        auto e = boost::get(edge_map, v);
                        parmcb::SPTree<Graph, WeightMap> &tree_v = trees[tree];

                        std::shared_ptr<SPNode<Graph, WeightMap>> spnode_v = tree_v.node(boost::source(e, g));
                        if (spnode_v == nullptr) {
                            continue;
                        }
                        std::shared_ptr<SPNode<Graph, WeightMap>> spnode_u = tree_v.node(boost::target(e, g));
                        if (spnode_u == nullptr) {
                            continue;
                        }

                        WeightType cycle_weight = boost::get(weight_map, e) + spnode_v->weight() + spnode_u->weight();
                        cycles.emplace_back(tree, e, cycle_weight);
                        is_in_output[component] = true;
                    }
                }
            }
        };

    } // detail

} // parmcb

#endif
