// positive example for R19c: a non-inline function defined in a header
#ifndef POSITIVE_C19_ODR
#define POSITIVE_C19_ODR
namespace positive {
int not_inline(int x) { return x + 1; }
inline int is_inline(int x) { return x + 2; }
template<class T> T is_template(T x) { return x; }
}
#endif
