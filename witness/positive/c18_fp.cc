// positive example for the C18 rules; compiled with witness/positive/broken_include2 first.  Never executed.
#include <parmcb/fp.hpp>
#include <parmcb/spvecfp.hpp>
int use_c18(int a, int p) {
    int x, y;
    int g = parmcb::fp<int>::ext_gcd(a, p, x, y) + parmcb::fp<int>::get_mult_inverse(a, p) + (parmcb::primes<int>::is_prime(p) ? 1 : 0);
    parmcb::SpVecFP<int> u(7), v(7);
    u = std::size_t(1);
    v = std::size_t(2);
    parmcb::SpVecFP<int> w = u + v;
    parmcb::SpVecFP<int> z(w);
    z = w * 3;
    z += u;
    z *= 2;
    return g + (u * v) + (int) z.size();
}
