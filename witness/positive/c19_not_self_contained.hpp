// positive example for R19a: uses std::vector without including <vector>; must NOT compile alone
#ifndef POSITIVE_C19_NOT_SELF_CONTAINED
#define POSITIVE_C19_NOT_SELF_CONTAINED
namespace positive { inline int first(const std::vector<int> &v) { return v.empty() ? 0 : v[0]; } }
#endif
