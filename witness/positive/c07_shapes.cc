// positive example for R07b / R07d: a reference member bound to a dying non-empty temporary; *end()
#include <algorithm>
#include <iterator>
#include <string>
#include <vector>
#include <boost/graph/adjacency_list.hpp>
namespace positive {
struct Holder {
    const std::string &name;
    explicit Holder(const std::string &n) : name(n) {}
};
struct ByValueHolder {
    const std::string &name;
    explicit ByValueHolder(std::string n) : name(n) {}   // R07b (by-value parameter)
};
inline std::size_t dangling2(const std::string &s) {
    ByValueHolder h(s);
    return h.name.size();
}
inline std::size_t dangling() {
    Holder h(std::string("temporary"));   // R07b
    return h.name.size();
}
inline std::size_t reused_scratch(std::size_t n) {
    static std::vector<int> scratch;      // R07g positive: shared by all calls
    scratch.resize(n);
    return scratch.size();
}
inline std::size_t wrapped_reserve(const std::vector<int> &v) {
    std::vector<int> out;
    out.reserve(v.size() - 1);            // R07h positive: wraps for an empty input
    return out.capacity();
}
typedef boost::adjacency_list<boost::vecS, boost::vecS, boost::undirectedS> rgraph_t;
inline void visit_r07j(const rgraph_t &g, std::size_t u, std::vector<bool> &seen) {   // R07j positive: recursion along the graph
    seen[u] = true;
    auto r = boost::out_edges(u, g);
    for (auto it = r.first; it != r.second; ++it) {
        std::size_t w = boost::target(*it, g);
        if (!seen[w]) visit_r07j(g, w, seen);
    }
}
inline int past_end(const std::vector<int> &v) {
    return *(v.end());                    // R07d
}
}
namespace parmcb {
struct fake_frontier {
    int d[4];
    bool has_finite_dist(int v) const { return d[v] != 2147483647; }
    int get_dist(int v) const { return d[v]; }
};
// R07f positive: stand-in with the library's name; plain + on a label that may be the infinity marker
inline int bidirectional_signed_dijkstra(const fake_frontier &other, int c, int w) {
    return c + other.get_dist(w);
}
}
int use_c07() { parmcb::fake_frontier ff = {{0, 1, 2, 3}}; return parmcb::bidirectional_signed_dijkstra(ff, 1, 2) + ([] { positive::rgraph_t g(2); std::vector<bool> s(2); positive::visit_r07j(g, 0, s); return 0; })() + (int) positive::wrapped_reserve(std::vector<int>()) + (int) positive::reused_scratch(3) + (int) positive::dangling() + positive::dangling2("x") + positive::past_end(std::vector<int>()); }

// R07k positive: infinity() of an integral type is 0
#include <limits>
template<class W> W c07_unreached() { return std::numeric_limits<W>::infinity(); }
int c07_unreached_int() { return c07_unreached<int>(); }
// R07l positive: division by a size that is zero for a forest
#include <vector>
std::size_t c07_grain(const std::vector<int> &cycles, const std::vector<int> &trees) { return cycles.size() / trees.size(); }

// R07o: tie-break rung spelled with <= : comp(x, x) is true
namespace r07o_pos {
struct Cand { double w; unsigned long tree; };
inline void sort_candidates(std::vector<Cand> &v) {
    std::sort(v.begin(), v.end(), [](const Cand &a, const Cand &b) {
        if (a.w != b.w) {
            return a.w < b.w;
        }
        return a.tree <= b.tree;
    });
}
}

// R07p: the initial value 0 makes the accumulator an int
#include <numeric>
namespace r07p_pos {
inline double total(const std::vector<double> &w) {
    return std::accumulate(w.begin(), w.end(), 0);
}
}

// R07q: the list is moved into the sink and appended to again in the next round without being cleared
#include <list>
namespace r07q_pos {
template<class Out>
inline void emit_all(const std::vector<std::vector<int>> &rounds, Out out) {
    std::list<int> cur;
    for (const auto &r : rounds) {
        for (int x : r) {
            cur.push_back(x);
        }
        *out++ = std::move(cur);
    }
}
inline void use(std::vector<std::list<int>> &sink, const std::vector<std::vector<int>> &rounds) {
    emit_all(rounds, std::back_inserter(sink));
}
}

// R07r: the current vertex is held by reference into the work list that the loop appends to
namespace r07r_pos {
inline unsigned long walk(const std::vector<std::vector<unsigned long>> &adj) {
    std::vector<unsigned long> order;
    std::vector<bool> seen(adj.size(), false);
    unsigned long head = 0, loops = 0;
    if (adj.empty()) return 0;
    order.push_back(0);
    seen[0] = true;
    while (head < order.size()) {
        const unsigned long &u = order[head++];
        for (unsigned long w : adj[u]) {
            if (w == u) { ++loops; continue; }
            if (!seen[w]) { seen[w] = true; order.push_back(w); }
        }
    }
    return loops;
}
// R07v: the winner of a scan is remembered by address, the pointee is a loop-body local
inline std::vector<int> dangling_winner(const std::vector<std::vector<int>> &rows) {
    const std::vector<int> *winner = nullptr;
    std::vector<int> best;
    for (std::size_t i = 0; i < rows.size(); ++i) {
        std::vector<int> res = rows[i];
        if (winner == nullptr || res.size() < winner->size()) {
            winner = &res;
        }
    }
    if (winner != nullptr) {
        best = *winner;                                  // R07v: `res` died with its iteration
    }
    return best;
}
}
