// positive example for R07b / R07d: a reference member bound to a dying non-empty temporary; *end()
#include <string>
#include <vector>
namespace positive {
struct Holder {
    const std::string &name;
    explicit Holder(const std::string &n) : name(n) {}
};
struct ByValueHolder {
    const std::string &name;
    explicit ByValueHolder(std::string n) : name(n) {}   // R07b (by-value parameter)
};
inline std::size_t dangling2(const std::string &s) {
    ByValueHolder h(s);
    return h.name.size();
}
inline std::size_t dangling() {
    Holder h(std::string("temporary"));   // R07b
    return h.name.size();
}
inline int past_end(const std::vector<int> &v) {
    return *(v.end());                    // R07d
}
}
int use_c07() { return (int) positive::dangling() + positive::dangling2("x") + positive::past_end(std::vector<int>()); }
