// positive example for R07b / R07d: a reference member bound to a dying non-empty temporary; *end()
#include <string>
#include <vector>
namespace positive {
struct Holder {
    const std::string &name;
    explicit Holder(const std::string &n) : name(n) {}
};
inline std::size_t dangling() {
    Holder h(std::string("temporary"));   // R07b
    return h.name.size();
}
inline int past_end(const std::vector<int> &v) {
    return *(v.end());                    // R07d
}
}
int use_c07() { return (int) positive::dangling() + positive::past_end(std::vector<int>()); }
