// positive example for R03a..R03f: racy task bodies and a broken reduction.  Never executed.
#include <cstddef>
#include <functional>
#include <limits>
#include <set>
#include <tuple>
#include <vector>
#include <tbb/parallel_for.h>
#include <tbb/parallel_reduce.h>
#include <tbb/concurrent_vector.h>
namespace positive {
typedef std::tuple<std::set<int>, double, bool> cycle_t;
inline cycle_t search(std::size_t i) { return std::make_tuple(std::set<int>(), double(i), true); }

inline double racy_sum(const std::vector<double> &w) {
    double total = 0;
    tbb::parallel_for(tbb::blocked_range<std::size_t>(0, w.size()), [&](const tbb::blocked_range<std::size_t> &r) {
        double local = 0;
        for (std::size_t i = r.begin(); i != r.end(); ++i) local += w[i];
        total += local;                                  // R03a: shared scalar
    });
    return total;
}
inline void racy_rows(std::vector<std::vector<int>> &rows, std::size_t k) {
    tbb::parallel_for(tbb::blocked_range<std::size_t>(k, rows.size()), [&](const tbb::blocked_range<std::size_t> &r) {
        for (std::size_t i = r.begin(); i != r.end(); ++i) {
            rows[i].push_back((int) rows[k].size());      // R03a: rows[k] is inside the range [k, n)
        }
    });
}
inline std::size_t early_read() {
    tbb::concurrent_vector<int> out;
    std::size_t seen = 0;
    tbb::parallel_for(tbb::blocked_range<std::size_t>(0, 100), [&](const tbb::blocked_range<std::size_t> &r) {
        for (std::size_t i = r.begin(); i != r.end(); ++i) {
            out.push_back((int) i);
            if (out.size() > 5) {                        // R03d: read while other tasks grow it
                continue;
            }
        }
    });
    return seen + out.size();
}
inline cycle_t carried_state(std::size_t n, const std::set<int> &all) {
    std::less<double> compare;
    auto join = [compare](const cycle_t &c1, const cycle_t &c2) {
        if (!std::get<2>(c1) || !std::get<2>(c2)) {
            return std::get<2>(c1) ? c1 : c2;
        }
        return compare(std::get<1>(c2), std::get<1>(c1)) ? c2 : c1;
    };
    return tbb::parallel_reduce(tbb::blocked_range<std::size_t>(0, n),
            std::make_tuple(std::set<int>(), (std::numeric_limits<double>::max)(), false),
            [&](tbb::blocked_range<std::size_t> r, cycle_t running_min) {
                std::set<int> hidden = all;                  // R03e: assumes the sub-range starts at 0
                for (std::size_t i = r.begin(); i < r.end(); i++) {
                    cycle_t res = search(i + hidden.size());
                    hidden.erase(hidden.begin());
                    if (std::get<2>(res) && (!std::get<2>(running_min) || compare(std::get<1>(res), std::get<1>(running_min)))) {
                        running_min = res;
                    }
                }
                return running_min;
            }, join);
}
inline cycle_t bad_reduce(std::size_t n) {
    std::less<double> compare;
    auto join = [compare](const cycle_t &c1, const cycle_t &c2) {
        if (!std::get<2>(c1) || !std::get<2>(c2)) {
            return std::get<2>(c1) ? c1 : c2;
        }
        return compare(std::get<1>(c1), std::get<1>(c2)) ? c2 : c1;   // R03b: keeps the heavier one
    };
    return tbb::parallel_reduce(tbb::blocked_range<std::size_t>(0, n),
            std::make_tuple(std::set<int>(), (std::numeric_limits<double>::max)(), false),
            [&](tbb::blocked_range<std::size_t> r, cycle_t running_min) {
                cycle_t best = std::make_tuple(std::set<int>(), 0.0, false);
                for (std::size_t i = r.begin(); i < r.end(); i++) {
                    cycle_t res = search(i);
                    if (std::get<2>(res) && compare(std::get<1>(res), std::get<1>(running_min))) {
                        running_min = res;               // R03c: !found(acc) missing
                    }
                    best = res;
                }
                return best;                             // R03c: does not return the accumulator
            }, join);
}
inline double paired_by_position(const std::vector<double> &w) {
    tbb::concurrent_vector<double> out;
    tbb::parallel_for(tbb::blocked_range<std::size_t>(0, w.size()), [&](const tbb::blocked_range<std::size_t> &r) {
        for (std::size_t i = r.begin(); i != r.end(); ++i) {
            out.push_back(2 * w[i]);
        }
    });
    double s = 0;
    auto it = w.begin();
    for (auto x : out) {                                 // R03f: element j of `out` is whichever task finished j-th, not 2 * w[j]
        s += x * *it;
        ++it;
    }
    return s;
}
}
double use_c03(std::vector<double> &w, std::vector<std::vector<int>> &rows) {
    positive::racy_rows(rows, 1);
    return positive::paired_by_position(w) + positive::racy_sum(w) + positive::early_read() + std::get<1>(positive::bad_reduce(10)) + std::get<1>(positive::carried_state(10, std::set<int>()));
}
