// positive example for the phase-loop / cycle-constructor rules (R01a-d, R02a-f): stand-ins named like the parmcb
// functions with one defect per rule.  Uses the real ForestIndex / SpVecGF2 / convert_edges / sptrees.hpp.  Never executed.
#include <algorithm>
#include <list>
#include <set>
#include <tuple>
#include <vector>
#include <limits>
#include <functional>
#include <boost/graph/adjacency_list.hpp>
#include <boost/mpi.hpp>
#include <parmcb/forestindex.hpp>
#include <parmcb/spvecgf2.hpp>
#include <parmcb/util.hpp>
#include <parmcb/sptrees.hpp>

namespace parmcb {

// R01c (insert result ignored / not invalidating) and R02b (unpaired edge)
template<class Graph, class WeightMap>
std::tuple<std::set<typename boost::graph_traits<Graph>::edge_descriptor>, typename boost::property_traits<WeightMap>::value_type, bool>
bidirectional_signed_dijkstra(const Graph &g, const WeightMap &weight_map,
        const std::set<typename boost::graph_traits<Graph>::edge_descriptor> &signed_edges,
        const std::set<typename boost::graph_traits<Graph>::edge_descriptor> &hidden_edges, bool use_hidden_edges,
        typename boost::graph_traits<Graph>::vertex_descriptor s, bool s_pos,
        typename boost::graph_traits<Graph>::vertex_descriptor t, bool t_pos, bool use_limit,
        const typename boost::property_traits<WeightMap>::value_type &limit) {
    typedef typename boost::graph_traits<Graph>::edge_descriptor Edge;
    typedef typename boost::property_traits<WeightMap>::value_type W;
    std::set<Edge> cycle;
    W cycle_weight = W();
    bool valid = true;
    auto er = boost::edges(g);
    for (auto ei = er.first; ei != er.second; ++ei) {
        Edge e = *ei;
        if (!cycle.insert(e).second) {
            valid = true;              // R01c: failure does not invalidate
            break;
        }
        cycle_weight += boost::get(weight_map, e);
    }
    for (auto ei = er.first; ei != er.second; ++ei) {
        Edge e2 = *ei;
        cycle.insert(e2);              // R01c: result ignored;  R02b: no weight for e2
    }
    if (!valid) {
        return std::make_tuple(std::set<Edge> { }, W(), false);
    }
    return std::make_tuple(cycle, cycle_weight, true);
}

template<class Graph, class WeightMap, class CycleOutputIterator>
typename boost::property_traits<WeightMap>::value_type mcb_sva_signed(const Graph &g, WeightMap weight_map, CycleOutputIterator out) {
    typedef typename boost::graph_traits<Graph>::edge_descriptor Edge;
    typedef typename boost::property_traits<WeightMap>::value_type WeightType;
    ForestIndex<Graph> forest_index(g);
    auto csd = forest_index.cycle_space_dimension();
    std::vector<SpVecGF2<std::size_t>> support;
    for (std::size_t k = 0; k < csd; k++) support.emplace_back(k);
    WeightType mcb_weight = WeightType();
    std::tuple<std::set<Edge>, WeightType, bool> other;
    for (std::size_t k = 1; k < csd; k++) {                           // R01a: starts at 1
        std::less<WeightType> compare;
        std::tuple<std::set<Edge>, WeightType, bool> best = std::make_tuple(std::set<Edge>(), (std::numeric_limits<WeightType>::max)(), false);
        std::set<Edge> signed_edges;
        convert_edges(support[k], std::inserter(signed_edges, signed_edges.end()), forest_index);
        std::set<Edge> hidden_edges = signed_edges;
        for (auto sei = signed_edges.begin(); sei != signed_edges.end(); ++sei) {
            auto se = *sei;
            auto res = bidirectional_signed_dijkstra(g, weight_map, signed_edges, hidden_edges, true, boost::source(se, g), true,
                    boost::target(se, g), true, std::get<2>(best), std::get<1>(other));      // R02e: mixed limit
            if (!std::get<2>(res)) {
                continue;                                             // R02f: skips the erase
            }
            hidden_edges.erase(hidden_edges.begin());
            if (std::get<2>(res) && (!std::get<2>(best) || compare(std::get<1>(best), std::get<1>(res)))) {   // R02c: reversed
                best = res;
            }
        }
        std::set<std::size_t> cyclek;
        convert_edges(std::get<0>(best), std::inserter(cyclek, cyclek.end()), forest_index);
        for (std::size_t l = k; l < csd; l++) {                       // R01b: starts at k
            if (support[l] * cyclek == 1) {
                support[l] += support[k];
            }
        }
        std::list<Edge> cyclek_edgelist;
        std::copy(std::get<0>(best).begin(), std::get<0>(best).end(), std::back_inserter(cyclek_edgelist));
        *out++ = cyclek_edgelist;
        mcb_weight += std::get<1>(other);                             // R02a: weight of another triple
    }
    return mcb_weight;
}

template<class Graph, class WeightMap, class CycleOutputIterator>
typename boost::property_traits<WeightMap>::value_type mcb_sva_signed_mpi(const Graph &g, WeightMap weight_map, CycleOutputIterator out,
        boost::mpi::communicator &world) {
    typedef typename boost::graph_traits<Graph>::edge_descriptor Edge;
    typedef typename boost::property_traits<WeightMap>::value_type WeightType;
    ForestIndex<Graph> forest_index(g);
    auto csd = forest_index.cycle_space_dimension();
    std::vector<SpVecGF2<std::size_t>> support;
    for (std::size_t k = 0; k < csd; k++) support.emplace_back(k);
    WeightType mcb_weight = WeightType();
    for (std::size_t k = 0; k < csd; k++) {
        std::set<Edge> signed_edges;
        convert_edges(support[k], std::inserter(signed_edges, signed_edges.end()), forest_index);
        std::tuple<std::set<Edge>, WeightType, bool> best = bidirectional_signed_dijkstra(g, weight_map, signed_edges, signed_edges, false,
                0, true, 0, false, false, WeightType());
        std::set<std::size_t> cyclek;
        convert_edges(std::get<0>(best), std::inserter(cyclek, cyclek.end()), forest_index);
        if (world.rank() == 0) {
            for (std::size_t l = k + 1; l < csd; l++) {
                if (support[l] * cyclek == 1) support[l] += support[k];
            }
        }
        std::list<Edge> cyclek_edgelist;
        std::copy(std::get<0>(best).begin(), std::get<0>(best).end(), std::back_inserter(cyclek_edgelist));
        *out++ = cyclek_edgelist;                                     // R01d: every rank emits
        mcb_weight += std::get<1>(best);
    }
    return mcb_weight;
}

// R02d: first-found lookup over unsorted candidates
template<class Graph, class WeightMap>
bool unsorted_lookup(const Graph &g, const WeightMap &weight_map) {
    typedef typename boost::graph_traits<Graph>::edge_descriptor Edge;
    std::vector<SPTree<Graph, WeightMap>> trees;
    std::vector<CandidateCycle<Graph, WeightMap>> cycles;
    const bool sorted_cycles = true;
    // R01f: candidates removed by a predicate that does not identify the candidate
    cycles.erase(std::unique(cycles.begin(), cycles.end(), [](const CandidateCycle<Graph, WeightMap> &a, const CandidateCycle<Graph, WeightMap> &b) {
        return a.edge() == b.edge() && a.weight() == b.weight();
    }), cycles.end());
    ShortestOddCycleLookup<Graph, WeightMap, false> lookup(g, weight_map, trees, cycles, sorted_cycles);
    return std::get<2>(lookup(std::set<Edge>()));
}
}

typedef boost::adjacency_list<boost::vecS, boost::vecS, boost::undirectedS, boost::no_property, boost::property<boost::edge_weight_t, double> > graph_t;
double use_c01(const graph_t &g, std::list<std::list<boost::graph_traits<graph_t>::edge_descriptor>> &c, boost::mpi::communicator &w) {
    return parmcb::mcb_sva_signed(g, get(boost::edge_weight, g), std::back_inserter(c)) +
           parmcb::mcb_sva_signed_mpi(g, get(boost::edge_weight, g), std::back_inserter(c), w) +
           (parmcb::unsorted_lookup(g, get(boost::edge_weight, g)) ? 1 : 0);
}
