// positive example for R11a/R11b/R11c: an MPI demo that validates on rank 0 only (pre-fix shape), lets the
// multiple-edge case fall through to the algorithm, and returns 1 after a completed run.
#include <cstdio>
#include <iostream>
#include <iomanip>
#include <list>
#include <boost/graph/adjacency_list.hpp>
#include <boost/mpi.hpp>
#include <parmcb/mpi/parmcb.hpp>
using namespace boost;
int main(int argc, char *argv[]) {
    boost::mpi::environment env(argc, argv, boost::mpi::threading::multiple);
    boost::mpi::communicator world;
    typedef adjacency_list<vecS, vecS, undirectedS, no_property, property<edge_weight_t, double> > graph_t;
    typedef graph_traits<graph_t>::edge_descriptor edge_descriptor;
    graph_t graph;
    FILE *fp = fopen(argv[1], "r");
    parmcb::read_dimacs_from_file(fp, graph);
    fclose(fp);
    if (world.rank() == 0) {
        if (parmcb::has_loops(graph)) {
            std::cerr << "Graph has loops, aborting.." << std::endl;
            return EXIT_FAILURE;
        }
    }
    if (parmcb::has_multiple_edges(graph)) {
        std::cerr << "Graph has multiple edges" << std::endl;
    }
    if (parmcb::has_non_positive_weights(graph, get(boost::edge_weight, graph))) {
        return EXIT_SUCCESS;
    }
    if (argc > 3) {
        std::cout << "verbose: " << std::fixed << std::setprecision(3) << 0.5 << std::endl;   // R11e: sticky, option-dependent
    }
    std::list<std::list<edge_descriptor>> cycles;
    double mcb_weight = 0;
    if (argc > 2) {
        mcb_weight = parmcb::mcb_sva_signed_mpi(graph, get(boost::edge_weight, graph), std::back_inserter(cycles), world);
    }
    std::cout << "MCB weight = " << mcb_weight << std::endl;
    return 1;
}
