// POSITIVE EXAMPLE (deliberately broken copy): R01e (sign never flips), R02h (a label is overwritten when the new one is greater), R02i (stop / prune / best-update conditions) must fire
#ifndef PARMCB_DETAIL_SIGNED_DIJKSTRA_HPP_
#define PARMCB_DETAIL_SIGNED_DIJKSTRA_HPP_

//    Copyright (C) Dimitrios Michail 2019 - 2021.
// Distributed under the Boost Software License, Version 1.0.
//    (See accompanying file LICENSE_1_0.txt or copy at
//          https://www.boost.org/LICENSE_1_0.txt)

#include <iostream>

#include <boost/scoped_array.hpp>
#include <boost/throw_exception.hpp>
#include <boost/functional/hash.hpp>
#include <boost/property_map/property_map.hpp>
#include <boost/property_map/function_property_map.hpp>
#include <boost/graph/graph_traits.hpp>
#include <boost/graph/graph_concepts.hpp>
#include <boost/graph/adjacency_list.hpp>
#include <boost/graph/detail/d_ary_heap.hpp>

#include <parmcb/detail/util.hpp>

namespace std {

    inline std::ostream& operator <<(std::ostream &out, const std::pair<unsigned long int, bool> &v) {
        out << v.first << (v.second ? "+" : "-");
        return out;
    }

}

namespace parmcb {

    namespace detail {

        template<class Graph, class WeightMap>
        struct SignedDistanceFunctor {
            typedef typename boost::graph_traits<Graph>::vertex_descriptor Vertex;
            typedef typename boost::property_traits<WeightMap>::value_type DistanceType;
            typedef typename boost::property_map<Graph, boost::vertex_index_t>::type VertexIndexMapType;
            typedef std::pair<Vertex, bool> SignedVertex;

            std::size_t n;
            std::vector<DistanceType> &dist;
            const VertexIndexMapType &index_map;

            SignedDistanceFunctor(std::size_t n, std::vector<DistanceType> &dist, const VertexIndexMapType &index_map) :
                    n(n), dist(dist), index_map(index_map) {
            }

            DistanceType& operator()(const SignedVertex &v) const {
                return dist.at(index_map[v.first] + (v.second ? 0 : n));
            }
        };

        template<class Graph>
        struct SignedPredecessorFunctor {
            typedef typename boost::graph_traits<Graph>::vertex_descriptor Vertex;
            typedef typename boost::property_map<Graph, boost::vertex_index_t>::type VertexIndexMapType;
            typedef typename boost::graph_traits<Graph>::edge_descriptor Edge;
            typedef std::pair<Vertex, bool> SignedVertex;
            typedef std::tuple<SignedVertex, bool, Edge> Predecessor;

            std::size_t n;
            std::vector<Predecessor> &pred;
            const VertexIndexMapType &index_map;

            SignedPredecessorFunctor(std::size_t n, std::vector<Predecessor> &pred, const VertexIndexMapType &index_map) :
                    n(n), pred(pred), index_map(index_map) {
            }

            Predecessor& operator()(const SignedVertex &v) const {
                return pred.at(index_map[v.first] + (v.second ? 0 : n));
            }
        };

        template<class Graph>
        struct SignedIndexInHeapFunctor {
            typedef typename boost::graph_traits<Graph>::vertex_descriptor Vertex;
            typedef typename boost::property_map<Graph, boost::vertex_index_t>::type VertexIndexMapType;
            typedef std::pair<Vertex, bool> SignedVertex;

            std::size_t n;
            std::vector<std::size_t> &index_in_heap;
            const VertexIndexMapType &index_map;

            SignedIndexInHeapFunctor(std::size_t n, std::vector<std::size_t> &index_in_heap,
                    const VertexIndexMapType &index_map) :
                    n(n), index_in_heap(index_in_heap), index_map(index_map) {
            }

            std::size_t& operator()(const SignedVertex &v) const {
                return index_in_heap.at(index_map[v.first] + (v.second ? 0 : n));
            }
        };

        template<class Graph, class WeightMap>
        struct search_frontier {
            typedef typename boost::graph_traits<Graph>::vertex_descriptor Vertex;
            typedef typename boost::graph_traits<Graph>::edge_descriptor Edge;
            typedef typename boost::property_traits<WeightMap>::value_type WeightType;
            typedef typename boost::property_traits<WeightMap>::value_type DistanceType;
            typedef typename boost::property_map<Graph, boost::vertex_index_t>::type VertexIndexMapType;
            typedef std::pair<Vertex, bool> SignedVertex;
            typedef std::tuple<SignedVertex, bool, Edge> Predecessor;
            typedef boost::d_ary_heap_indirect<SignedVertex, 4,
                    boost::function_property_map<parmcb::detail::SignedIndexInHeapFunctor<Graph>, SignedVertex,
                            std::size_t&>,
                    boost::function_property_map<parmcb::detail::SignedDistanceFunctor<Graph, WeightMap>, SignedVertex,
                            DistanceType&>, std::less<DistanceType>> VertexQueue;

            const Graph &g;
            const VertexIndexMapType index_map;
            std::vector<std::size_t> index_in_heap;
            std::vector<DistanceType> dist;
            std::vector<Predecessor> pred;
            boost::function_property_map<parmcb::detail::SignedIndexInHeapFunctor<Graph>, SignedVertex, std::size_t&> index_in_heap_map;
            boost::function_property_map<parmcb::detail::SignedDistanceFunctor<Graph, WeightMap>, SignedVertex,
                    DistanceType&> dist_map;
            boost::function_property_map<parmcb::detail::SignedPredecessorFunctor<Graph>, SignedVertex, Predecessor&> pred_map;
            std::less<DistanceType> compare;
            VertexQueue queue;
            SignedVertex source;

            search_frontier(const Graph &g) :
                    g(g), index_map(boost::get(boost::vertex_index, g)), index_in_heap(2 * boost::num_vertices(g)), dist(
                            2 * boost::num_vertices(g), (std::numeric_limits<DistanceType>::max)()), pred(
                            2 * boost::num_vertices(g), std::make_tuple(std::make_pair(Vertex(), true), false, Edge())), index_in_heap_map(
                            parmcb::detail::SignedIndexInHeapFunctor<Graph>(boost::num_vertices(g), index_in_heap,
                                    index_map)), dist_map(
                            parmcb::detail::SignedDistanceFunctor<Graph, WeightMap>(boost::num_vertices(g), dist,
                                    index_map)), pred_map(
                            parmcb::detail::SignedPredecessorFunctor<Graph>(boost::num_vertices(g), pred, index_map)), compare(), queue(
                            dist_map, index_in_heap_map, compare) {
            }

            SignedVertex poll() {
                SignedVertex u = queue.top();
                queue.pop();
                return u;
            }

            const DistanceType& find_min() {
                SignedVertex u = queue.top();
                return boost::get(dist_map, u);
            }

            bool has_finite_dist(const SignedVertex &u) {
                return u == source || std::get<1>(boost::get(pred_map, u));
            }

            const DistanceType& get_dist(const SignedVertex &u) {
                return boost::get(dist_map, u);
            }

            const Predecessor& get_pred(const SignedVertex &u) {
                return boost::get(pred_map, u);
            }

            void push_source(SignedVertex s) {
                boost::put(dist_map, s, DistanceType());
                queue.push(s);
                source = s;
            }

            SignedVertex get_source() {
                return source;
            }

            void update(SignedVertex w, const DistanceType &c, const SignedVertex &pred, const Edge &pred_e) {
                if (w == source) {
                    return;
                }
                bool visited_w = std::get<1>(boost::get(pred_map, w));

                if (!visited_w) {
                    // first time found
                    boost::put(dist_map, w, c);
                    boost::put(pred_map, w, std::make_tuple(pred, true, pred_e));
                    queue.push(w);
                } else if (compare(boost::get(dist_map, w), c)) {
                    // already reached
                    boost::put(dist_map, w, c);
                    boost::put(pred_map, w, std::make_tuple(pred, true, pred_e));
                    queue.update(w);
                }
            }

        };

    } // detail

    template<class Graph, class WeightMap, class SignedEdges, class HiddenEdges>
    std::tuple<std::set<typename boost::graph_traits<Graph>::edge_descriptor>,
            typename boost::property_traits<WeightMap>::value_type, bool> signed_dijkstra(const Graph &g,
            const WeightMap &weight_map, const SignedEdges &signed_edges, const HiddenEdges &hidden_edges,
            bool use_hidden_edges, const typename boost::graph_traits<Graph>::vertex_descriptor &s, bool s_pos,
            const typename boost::graph_traits<Graph>::vertex_descriptor &t, bool t_pos, bool use_cycle_weight_limit,
            const typename boost::property_traits<WeightMap>::value_type &cycle_weight_limit) {

        typedef typename boost::graph_traits<Graph>::vertex_descriptor Vertex;
        typedef typename boost::graph_traits<Graph>::edge_descriptor Edge;
        typedef typename boost::property_traits<WeightMap>::value_type WeightType;
        typedef typename boost::property_traits<WeightMap>::value_type DistanceType;
        typedef std::pair<Vertex, bool> SignedVertex;
        typedef std::tuple<SignedVertex, bool, Edge> Predecessor;

        DistanceType distance_inf = (std::numeric_limits<DistanceType>::max)();
        std::less<DistanceType> compare;
        parmcb::detail::closed_plus<DistanceType> combine = parmcb::detail::closed_plus<DistanceType>();

        parmcb::detail::search_frontier<Graph, WeightMap> frontier(g);
        SignedVertex signed_s = std::make_pair(s, s_pos);
        SignedVertex signed_t = std::make_pair(t, t_pos);
        frontier.push_source(signed_s);

        assert(signed_s != signed_t);

        while (!frontier.queue.empty()) {
            SignedVertex signed_u = frontier.poll();
            DistanceType d_u = frontier.get_dist(signed_u);
            auto u = signed_u.first;

            if (use_cycle_weight_limit && !compare(cycle_weight_limit, d_u)) {
                // reached limit
                return std::make_tuple(std::set<Edge> { }, distance_inf, false);
            }

            if (signed_u == signed_t) { // found target
                std::set<Edge> cycle;
                WeightType cycle_weight = WeightType();
                SignedVertex signed_cur = signed_t;
                while (signed_cur != signed_s) {
                    Predecessor p = frontier.get_pred(signed_cur);
                    Edge e = std::get<2>(p);
                    if (!cycle.insert(e).second) {
                        // duplicate edge, discard cycle
                        return std::make_pair(std::set<Edge> { }, distance_inf);
                    } else {
                        cycle_weight += get(weight_map, e);
                    }
                    signed_cur = std::get<0>(p);
                }
                return std::make_tuple(cycle, cycle_weight, true);
            }

            auto eiRange = boost::out_edges(signed_u.first, g);
            for (auto ei = eiRange.first; ei != eiRange.second; ++ei) {
                auto e = *ei;
                if (use_hidden_edges && hidden_edges.find(e) != hidden_edges.end()) {
                    continue;
                }

                auto w = boost::target(e, g);
                if (w == u) {
                    w = boost::source(e, g);
                }
                if (w == u) {
                    // self-loop
                    continue;
                }
                const WeightType c = combine(d_u, get(weight_map, e));

                if (use_cycle_weight_limit && !compare(c, cycle_weight_limit)) {
                    // never insert if more than current minimum
                    continue;
                }

                bool is_signed = (signed_edges.find(e) != signed_edges.end());
                SignedVertex signed_w = std::make_pair(w, is_signed ? signed_u.second : signed_u.second);

                frontier.update(signed_w, c, signed_u, e);
            }

        }

        return std::make_tuple(std::set<Edge> { }, distance_inf, false);
    }

    template<class Graph, class WeightMap, class SignedEdges, class HiddenEdges>
    std::tuple<std::set<typename boost::graph_traits<Graph>::edge_descriptor>,
            typename boost::property_traits<WeightMap>::value_type, bool> bidirectional_signed_dijkstra(const Graph &g,
            const WeightMap &weight_map, const SignedEdges &signed_edges, const HiddenEdges &hidden_edges,
            bool use_hidden_edges, const typename boost::graph_traits<Graph>::vertex_descriptor &s, bool s_pos,
            const typename boost::graph_traits<Graph>::vertex_descriptor &t, bool t_pos, bool use_cycle_weight_limit,
            const typename boost::property_traits<WeightMap>::value_type &cycle_weight_limit) {

        typedef typename boost::graph_traits<Graph>::vertex_descriptor Vertex;
        typedef typename boost::graph_traits<Graph>::edge_descriptor Edge;
        typedef typename boost::property_traits<WeightMap>::value_type WeightType;
        typedef typename boost::property_traits<WeightMap>::value_type DistanceType;
        typedef std::pair<Vertex, bool> SignedVertex;
        typedef std::tuple<SignedVertex, bool, Edge> Predecessor;

        DistanceType distance_inf = (std::numeric_limits<DistanceType>::max)();
        std::less<DistanceType> compare;
        parmcb::detail::closed_plus<DistanceType> combine = parmcb::detail::closed_plus<DistanceType>();

        SignedVertex signed_s = std::make_pair(s, s_pos);
        parmcb::detail::search_frontier<Graph, WeightMap> f_frontier(g);
        f_frontier.push_source(signed_s);

        SignedVertex signed_t = std::make_pair(t, t_pos);
        parmcb::detail::search_frontier<Graph, WeightMap> b_frontier(g);
        b_frontier.push_source(signed_t);

        assert(signed_s != signed_t);

        std::reference_wrapper<parmcb::detail::search_frontier<Graph, WeightMap>> frontier = std::ref(f_frontier);
        std::reference_wrapper<parmcb::detail::search_frontier<Graph, WeightMap>> other_frontier = std::ref(b_frontier);
        DistanceType best_path = distance_inf;
        bool best_path_set = false;
        SignedVertex best_path_common_vertex;

        while (true) {
            // stopping condition
            if (frontier.get().queue.empty() || other_frontier.get().queue.empty()
                    || (best_path_set
                            && compare(combine(frontier.get().find_min(), other_frontier.get().find_min()), best_path))) {
                break;
            }

            // frontier scan
            SignedVertex signed_u = frontier.get().poll();
            DistanceType d_u = frontier.get().get_dist(signed_u);
            auto u = signed_u.first;

            if (use_cycle_weight_limit && !compare(d_u, cycle_weight_limit)) {
                // reached limit
                return std::make_tuple(std::set<Edge> { }, distance_inf, false);
            }

            auto eiRange = boost::out_edges(signed_u.first, g);
            for (auto ei = eiRange.first; ei != eiRange.second; ++ei) {
                auto e = *ei;
                if (use_hidden_edges && hidden_edges.find(e) != hidden_edges.end()) {
                    continue;
                }
                auto w = boost::target(e, g);
                if (w == u) {
                    w = boost::source(e, g);
                }
                if (w == u) {
                    // self-loop
                    continue;
                }

                const WeightType c = combine(d_u, get(weight_map, e));
                if (use_cycle_weight_limit && !frontier.get().compare(c, cycle_weight_limit)) {
                    // never insert if more than current minimum
                    continue;
                }

                bool is_signed = (signed_edges.find(e) != signed_edges.end());
                SignedVertex signed_w = std::make_pair(w, is_signed ? (!signed_u.second) : signed_u.second);

                frontier.get().update(signed_w, c, signed_u, e);

                if (other_frontier.get().has_finite_dist(signed_w)) {
                    // check path with w's distance from other frontier
                    DistanceType path_distance = combine(c, other_frontier.get().get_dist(signed_w));
                    if (!compare(best_path, path_distance)) {
                        best_path_set = true;
                        best_path = path_distance;
                        best_path_common_vertex = signed_w;
                    }
                }

            }

            // swap frontiers
            std::swap(frontier, other_frontier);
        }

        if (!best_path_set || (use_cycle_weight_limit && !compare(best_path, cycle_weight_limit))) {
            return std::make_tuple(std::set<Edge> { }, distance_inf, false);
        }

        // create path if found
        std::set<Edge> cycle;
        WeightType cycle_weight = WeightType();

        SignedVertex signed_cur = best_path_common_vertex;
        SignedVertex signed_goal = frontier.get().get_source();
        while (signed_cur != signed_goal) {
            Predecessor p = frontier.get().get_pred(signed_cur);
            Edge e = std::get<2>(p);
            if (!cycle.insert(e).second) {
                // duplicate edge, discard cycle
                return std::make_tuple(std::set<Edge> { }, distance_inf, false);
            } else {
                cycle_weight += boost::get(weight_map, e);
            }
            signed_cur = std::get<0>(p);
        }

        signed_cur = best_path_common_vertex;
        signed_goal = other_frontier.get().get_source();
        while (signed_cur != signed_goal) {
            Predecessor p = other_frontier.get().get_pred(signed_cur);
            Edge e = std::get<2>(p);
            if (!cycle.insert(e).second) {
                // duplicate edge, discard cycle
                return std::make_tuple(std::set<Edge> { }, distance_inf, false);
            } else {
                cycle_weight += boost::get(weight_map, e);
            }
            signed_cur = std::get<0>(p);
        }
        return std::make_tuple(cycle, cycle_weight, true);
    }

} // parmcb

#endif
