// POSITIVE EXAMPLE (deliberately broken copy): R13a, R13b, R13c, R13d must fire
#ifndef PARMCB_DETAIL_FVS_HPP_
#define PARMCB_DETAIL_FVS_HPP_

//    Copyright (C) Dimitrios Michail 2019 - 2021.
// Distributed under the Boost Software License, Version 1.0.
//    (See accompanying file LICENSE_1_0.txt or copy at
//          https://www.boost.org/LICENSE_1_0.txt)

#include <iostream>

#include <boost/scoped_array.hpp>
#include <boost/throw_exception.hpp>
#include <boost/functional/hash.hpp>
#include <boost/property_map/property_map.hpp>
#include <boost/property_map/function_property_map.hpp>
#include <boost/graph/graph_traits.hpp>
#include <boost/graph/graph_concepts.hpp>
#include <boost/graph/adjacency_list.hpp>
#include <boost/heap/pairing_heap.hpp>

namespace parmcb {

    namespace detail {

        template<class Vertex>
        struct LessVertex {
            LessVertex(std::map<Vertex, double> &priority) :
                    priority(priority) {
            }

            bool operator()(const Vertex &v, const Vertex &u) const {
                return priority[v] >= priority[u];
            }

            std::map<Vertex, double> &priority;
        };

    } // detail

    template<class Graph, class VertexOutputIterator>
    void greedy_fvs(const Graph &g, VertexOutputIterator out) {

        typedef typename boost::graph_traits<Graph>::vertex_descriptor Vertex;
        typedef typename boost::graph_traits<Graph>::vertex_iterator VertexIt;
        typedef typename boost::property_map<Graph, boost::vertex_index_t>::type VertexIndexMapType;
        typedef typename boost::heap::pairing_heap<Vertex, boost::heap::compare<detail::LessVertex<Vertex>>>::handle_type HeapHandleType;

        std::size_t n = boost::num_vertices(g);
        std::vector<bool> exists(n);
        std::vector<std::size_t> degree(n);
        std::vector<HeapHandleType> handle(n);
        std::map<Vertex, double> priority;
        boost::heap::pairing_heap<Vertex, boost::heap::compare<detail::LessVertex<Vertex>>> heap(
                detail::LessVertex<Vertex> { priority });

        const VertexIndexMapType &index_map = boost::get(boost::vertex_index, g);
        boost::associative_property_map<std::map<Vertex, double>> priority_map(priority);

        // initialize
        std::deque<Vertex> forRemoval;
        std::size_t removed_r13f = 0;
        VertexIt vi, viend;
        for (boost::tie(vi, viend) = boost::vertices(g); vi != viend; ++vi) {
            auto v = *vi;
            auto vindex = index_map[v];
            auto d = boost::out_degree(v, g);
            exists[vindex] = true;
            if ((degree[vindex] = d - 1) <= 1) {
                forRemoval.push_front(v);
            } else {
                priority[v] = 1.0 / d;
            }
        }

        // cleanup
        // repeatedly remove degree 0 or 1
        while (!forRemoval.empty()) {
            Vertex u = forRemoval.front();
            forRemoval.pop_front();
            removed_r13f++;
            auto uindex = index_map[u];
            exists[uindex] = false;

            auto eiRange = boost::out_edges(u, g);
            for (auto ei = eiRange.first; ei != eiRange.second; ++ei) {
                auto w = boost::target(*ei, g);
                auto windex = index_map[w];
                if (!exists[windex]) {
                    continue;
                }
                degree[windex]--;
                if (degree[windex] <= 2) {
                    // collect for removal
                    forRemoval.push_front(w);
                } else {
                    priority[w] = 1.0 / degree[windex];
                }
            }
        }

        if (removed_r13f == n) {                          // R13f positive: pop counter compared with n
            return;
        }
        // add remaining vertices into the priority queue
        for (boost::tie(vi, viend) = boost::vertices(g); vi != viend; ++vi) {
            auto v = *vi;
            auto vindex = index_map[v];
            if (!exists[vindex]) {
                continue;
            }
            handle[vindex] = heap.push(v);
        }

        // main loop
        while (heap.size() > 3) {                         // R13e positive
            auto v = heap.top();
            auto vindex = index_map[v];
            heap.pop();

            if (!exists[vindex]) {
                continue;
            }

            // add to feedback vertex set
            *out++ = v;


            auto eiRange = boost::out_edges(v, g);
            for (auto ei = eiRange.first; ei != eiRange.second; ++ei) {
                auto u = boost::target(*ei, g);
                auto uindex = index_map[u];
                degree[uindex]--;
                if (degree[uindex] <= 1) {
                    // collect for removal
                    forRemoval.push_front(u);
                } else {
                    priority[u] = 1.0 / degree[uindex];
                    heap.decrease(handle[uindex]);
                }
            }

            // cleanup
            while (!forRemoval.empty()) {
                Vertex u = forRemoval.front();
                forRemoval.pop_back();                    // R13g positive
                auto uindex = index_map[u];
                exists[uindex] = false;

                eiRange = boost::out_edges(u, g);
                for (auto ei = eiRange.first; ei != eiRange.second; ++ei) {
                    auto w = boost::target(*ei, g);
                    auto windex = index_map[w];
                    if (!exists[windex]) {
                        continue;
                    }
                    degree[windex]--;
                    if (degree[windex] <= 1) {
                        // collect for removal
                        forRemoval.push_front(w);
                    } else {
                        priority[w] = 1.0 / degree[windex];
                        heap.decrease(handle[windex]);
                    }

                }

            }

        }

    }

} // parmcb

#endif
