// fp.hpp as the FIRST include of a translation unit, instantiated with the built-in 64-bit types: overload sets that depend on which headers
// happen to be visible at the template definition (an unqualified abs(), for example) resolve here the way they do for a user who includes the
// header alone.  Used by R18j.
#include <parmcb/fp.hpp>

namespace witness_fp_first {
long long use_ll(long long a, long long b) {
    long long x, y;
    long long g = parmcb::fp<long long>::ext_gcd(a, b, x, y);
    return g + parmcb::fp<long long>::get_mult_inverse(a, b) + (parmcb::primes<long long>::is_prime(b) ? 1 : 0);
}
long use_l(long a, long b) {
    long x, y;
    return parmcb::fp<long>::ext_gcd(a, b, x, y) + parmcb::fp<long>::get_mult_inverse(a, b);
}
}
