// Verification-owned translation unit: includes every public header of parmcb and instantiates
// every public entry point for an adjacency_list graph with W in {double, int}, so that the static
// checker sees the instantiated bodies of all of them in one unit.  Never executed, never linked.
#include <parmcb/config.hpp>

#include <cstdio>
#include <cstring>
#include <iterator>
#include <list>
#include <set>
#include <vector>

#include <boost/graph/adjacency_list.hpp>

#include <parmcb/parmcb.hpp>
#include <parmcb/arithmetic.hpp>
#include <parmcb/fp.hpp>
#include <parmcb/spvecfp.hpp>
#include <parmcb/spvecgf2.hpp>
#include <parmcb/forestindex.hpp>
#include <parmcb/sptrees.hpp>
#include <parmcb/util.hpp>
#include <parmcb/detail/bfs.hpp>
#include <parmcb/detail/cycles.hpp>
#include <parmcb/detail/dijkstra.hpp>
#include <parmcb/detail/fvs.hpp>
#include <parmcb/detail/lex_dijkstra.hpp>
#include <parmcb/detail/signed_dijkstra.hpp>
#include <parmcb/detail/spanning_forest.hpp>

#if defined(PARMCB_HAVE_MPI) && defined(PARMCB_HAVE_TBB) && !defined(PARMCB_WITNESS_NO_MPI)
#define WITNESS_MPI 1
#include <boost/mpi.hpp>
#include <parmcb/mpi/parmcb.hpp>
#endif

// explicit instantiation of the value classes: every non-template member function gets a body the checker can see, also overloads
// that no statement below happens to select (ref-qualified operators, rarely used accessors)
template class parmcb::SpVecGF2<std::size_t>;
// a narrow index type: conversions between the index type and sizes / positions become visible as casts (R17f)
template class parmcb::SpVecGF2<unsigned short>;
template class parmcb::SpVecFP<int>;
template class parmcb::SpVecFP<long long>;

namespace witness {

template<class W>
struct Entry {
    typedef boost::adjacency_list<boost::vecS, boost::vecS, boost::undirectedS, boost::no_property,
            boost::property<boost::edge_weight_t, W> > graph_t;
    typedef typename boost::graph_traits<graph_t>::edge_descriptor edge_t;
    typedef typename boost::graph_traits<graph_t>::vertex_descriptor vertex_t;
    typedef typename boost::property_map<graph_t, boost::edge_weight_t>::type wmap_t;
    typedef std::list<std::list<edge_t>> cycles_t;

    static W exact(const graph_t &g, wmap_t w, cycles_t &cycles) {
        W r = W();
        r += parmcb::mcb_sva_signed(g, w, std::back_inserter(cycles));
        r += parmcb::mcb_sva_fvs_trees(g, w, std::back_inserter(cycles));
        r += parmcb::mcb_sva_iso_trees(g, w, std::back_inserter(cycles));
#ifdef PARMCB_HAVE_TBB
        r += parmcb::mcb_sva_signed_tbb(g, w, std::back_inserter(cycles));
        r += parmcb::mcb_sva_fvs_trees_tbb(g, w, std::back_inserter(cycles));
        r += parmcb::mcb_sva_iso_trees_tbb(g, w, std::back_inserter(cycles));
#endif
        return r;
    }

    static W approx(const graph_t &g, wmap_t w, std::size_t k, cycles_t &cycles) {
        W r = W();
        r += parmcb::approx_mcb_sva_signed(g, w, k, std::back_inserter(cycles));
        r += parmcb::approx_mcb_sva_fvs_trees(g, w, k, std::back_inserter(cycles));
        r += parmcb::approx_mcb_sva_iso_trees(g, w, k, std::back_inserter(cycles));
#ifdef PARMCB_HAVE_TBB
        r += parmcb::approx_mcb_sva_signed_tbb(g, w, k, std::back_inserter(cycles));
        r += parmcb::approx_mcb_sva_fvs_trees_tbb(g, w, k, std::back_inserter(cycles));
        r += parmcb::approx_mcb_sva_iso_trees_tbb(g, w, k, std::back_inserter(cycles));
#endif
        return r;
    }

#ifdef WITNESS_MPI
    static W mpi(const graph_t &g, wmap_t w, cycles_t &cycles, boost::mpi::communicator &world) {
        W r = W();
        r += parmcb::mcb_sva_signed_mpi(g, w, std::back_inserter(cycles), world);
        r += parmcb::mcb_sva_fvs_trees_mpi(g, w, std::back_inserter(cycles), world);
        r += parmcb::mcb_sva_fvs_trees_tbb_mpi(g, w, std::back_inserter(cycles), world);
        r += parmcb::mcb_sva_iso_trees_mpi(g, w, std::back_inserter(cycles), world);
        r += parmcb::mcb_sva_iso_trees_tbb_mpi(g, w, std::back_inserter(cycles), world);
        return r;
    }
#endif

    static std::size_t components(const graph_t &g, wmap_t w) {
        std::size_t r = 0;
        // Horton / FVS / ISO candidate collections
        auto index_map = boost::get(boost::vertex_index, g);
        std::vector<parmcb::SPTree<graph_t, wmap_t>> trees;
        std::vector<parmcb::CandidateCycle<graph_t, wmap_t>> cycles;
        parmcb::detail::HortonCyclesBuilder<graph_t, wmap_t> horton;
        horton(g, w, trees, cycles);
        parmcb::detail::FVSCyclesBuilder<graph_t, wmap_t> fvs;
        fvs(g, w, trees, cycles);
        parmcb::detail::ISOCyclesBuilder<graph_t, wmap_t> iso;
        iso(g, w, trees, cycles);
        (void) index_map;
        r += cycles.size();

        // forest index
        parmcb::ForestIndex<graph_t> forest_index(g);
        parmcb::ForestIndex<graph_t> forest_index_copy(forest_index);
        forest_index_copy = forest_index;
        r += forest_index_copy.cycle_space_dimension();
        r += forest_index.cycle_space_dimension();
        r += forest_index.weak_connected_components();
        for (auto e : boost::make_iterator_range(boost::edges(g))) {
            r += forest_index(e);
            r += forest_index.is_on_forest(e) ? 1 : 0;
            edge_t e2 = forest_index(forest_index(e));
            (void) e2;
        }

        // feedback vertex set
        std::vector<vertex_t> fvs_out;
        parmcb::greedy_fvs(g, std::back_inserter(fvs_out));
        r += fvs_out.size();

        // validators
        r += parmcb::has_loops(g) ? 1 : 0;
        r += parmcb::has_multiple_edges(g) ? 1 : 0;
        r += parmcb::has_non_positive_weights(g, w) ? 1 : 0;
        return r;
    }

    static void reader(FILE *fp, graph_t &g) {
        parmcb::read_dimacs_from_file(fp, g);
    }
};

template struct Entry<double>;
template struct Entry<int>;

// sparse vectors and the prime field
inline std::size_t spvecgf2() {
    std::set<std::size_t> s;
    s.insert(3);
    parmcb::SpVecGF2<std::size_t> a(1), b(s), c;
    parmcb::SpVecGF2<std::size_t> d(a);
    parmcb::SpVecGF2<std::size_t> e(std::move(d));
    c = a + b;
    c += a;
    e = c;
    std::size_t r = (a * b) + (a * s) + c.size();
    for (auto it = c.begin(); it != c.end(); ++it) r += *it;
    c.clear();
    e = {};                 // resolution witness for R17d: must select the copy/move assignment (zero vector), not a converting overload
    return r + e.size();
}

template<class T>
inline T field(T a, T p) {
    T x, y;
    T g = parmcb::fp<T>::ext_gcd(a, p, x, y);
    T inv = parmcb::fp<T>::get_mult_inverse(a, p);
    bool pr = parmcb::primes<T>::is_prime(p);
    return g + inv + (pr ? 1 : 0);
}
template int field<int>(int, int);
template long field<long>(long, long);

inline std::size_t spvecfp() {
    typedef parmcb::SpVecFP<int> V;
    V a(7), b(7), c(7), z;
    a = std::size_t(1);
    b = std::size_t(2);
    V d = a + b;
    V e = d * 3;
    V f(e);
    c = e;
    c += a;
    c *= 5;
    int dot = a * b;
    std::size_t r = dot;
    for (auto it = c.begin(); it != c.end(); ++it) r += 1;
    return r;
}

#ifdef PARMCB_HAVE_TBB
inline void knob(std::size_t n) {
    parmcb::set_global_tbb_concurrency(n);
}
#endif

}  // namespace witness
