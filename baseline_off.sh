#!/bin/sh
# the repository's own test suite with no verification define (there are no hooks): configure, build and
# run ctest in a scratch directory outside /repo and /verif, removed afterwards
set -e
B=$(mktemp -d /tmp/parmcb-baseline.XXXXXX)
trap 'rm -rf "$B"' EXIT
cmake -S /repo -B "$B" -G Ninja > "$B/configure.log" 2>&1 || { cat "$B/configure.log"; exit 1; }
cmake --build "$B" -j16 > "$B/build.log" 2>&1 || { tail -50 "$B/build.log"; exit 1; }
ctest --test-dir "$B" -j8 --timeout 900 --output-on-failure
