#!/bin/sh
# runs every claimed check (default tier quick) on /repo's current working tree and summarises exit codes
cd "$(dirname "$0")"
tier=${1:-quick}
rc=0
for p in $(./check --list); do
  if [ -f sa/rules/$(echo $p | tr 'A-Z' 'a-z').py ]; then
    out=$(./check $p --tier $tier 2>&1); r=$?
    echo "$out" | tail -n 1 | sed "s/^/[exit $r] /"
    [ $r -ne 0 ] && { echo "$out" | grep -E "VIOLATION|ANALYSIS-BROKEN|KNOWN-FINDING" | head -5; rc=1; }
  fi
done
exit $rc
